"""C08 - one schema definition means the same on pandas and polars."""

from __future__ import annotations

import ast
import re

from ..builtin import BUILTINS, check_functions, compare_with_spec
from ..cfg import cfg_of
from ..expand import expanded
from ..flow import FlowExpander
from ..index import AnalysisError, function_stmts, walk_no_nested
from ..preds import PredError, decision_table
from ..roles import callable_list_loops, reason_codes_in
from ..util import Expander, alpha, callee_last, calls_in, canonical_locals, kw, path_condition, show_condition, txt

EXPLANATION = (
    "Static sibling-agreement analysis (ast, CFG guards, symbolic normal forms; nothing executed). (R1) every "
    "built-in check of backends/pandas/builtin_checks.py and backends/polars/builtin_checks.py is interpreted into a "
    "decision table of canonical predicates and each row is compared with the documented meaning, hence with each "
    "other (thorough adds pyspark where the forms are expressible); (R2) a user regex embedded in a larger pattern "
    "is grouped; (R3) parameter names and defaults of base/pandas/polars implementations and the Check.<name> "
    "constructors agree; (R4) the twin container functions (add_missing_columns, strict_filter_columns, "
    "check_column_presence, check_column_values_are_unique, collect_column_info, coerce/set_default stages) reach "
    "the same SchemaErrorReason / effect under the same conditions on schema attributes, with pd.isna(x) == "
    "`x is None` == missing(x). (R5) neither backend's uniqueness check filters or masks nulls (duplicated()/is_duplicated() both count repeated nulls); (R6) both containers decide `declares a default` by `default is (not) None`, never by truthiness. " 
    " (R7) polars ColumnBackend.set_default applies fill_null on every path (reaching-definition walk; fill_nan alone leaves the nulls of a float column); (R8) both add_missing_columns compute the final column selection from the frame's own columns as well as the schema's (undeclared columns are kept unless strict says otherwise). " 
    " (R9) a declared default reaches a polars expression context (with_columns / fill_null / fill_nan) only as pl.lit(default) or under an isinstance(default, pl.Expr) test - a bare str there is a column reference. " 
    " (R10) the polars container fills defaults only for columns the frame has (non-regex); (R11) polars check_nullable asks is_not_null on every path (is_not_nan alone answers null for a null cell, which aggregations skip). " 
    "NOT decided: equality of failing cells and parsed outputs on data; numeric/regex "
    "dialect differences between python re/numpy and rust."
    ' (R12) the NaN part of the polars nullable check is conditional on the dtype of the data only, never on the declared dtype; (R13) a built-in check statistic whose declared type admits str reaches a polars method that reads str as a column name (is_between, clip, ...) only as a value (pl.lit).'
)
LEVEL_RULE = "one obligation per (check, option assignment, backend) / signature / twin effect site"
FLOORS = {"R1": 40, "R2": 1, "R3": 40, "R4": 10, "R5": 4, "R6": 2, "R7": 1, "R8": 2, "R9": 2, "R10": 1, "R11": 1}

PD = "pandera/backends/pandas/builtin_checks.py"
PL = "pandera/backends/polars/builtin_checks.py"
PS = "pandera/backends/pyspark/builtin_checks.py"
BASE = "pandera/backends/base/builtin_checks.py"
PDC = "pandera/backends/pandas/container.py::DataFrameSchemaBackend"
PLC = "pandera/backends/polars/container.py::DataFrameSchemaBackend"


def r1_predicates(ctx):
    ix = ctx.ix
    for path, flavour in ((PD, "pandas"), (PL, "polars")):
        fns = check_functions(ix, path)
        for name in BUILTINS:
            f = fns.get(name)
            if f is None:
                ctx.ob("R1", f"{path}::{name}", f"{flavour} implementation of {name}", False,
                       f"built-in check {name} has no {flavour} implementation")
                continue
            ctx.touched(f)
            for a, ok, detail in compare_with_spec(name, f.node, flavour):
                ctx.ob("R1", f, f"{flavour} {name} under {a or 'no options'}", ok, detail)


def r2_embedding(ctx):
    ix = ctx.ix
    paths = [(PD, "pandas"), (PL, "polars")]
    for path, flavour in paths:
        for name, f in check_functions(ix, path).items():
            try:
                table = decision_table(f.node, flavour)
            except PredError:
                continue
            seen = set()
            for row, form in table.items():
                for sub in _walk_forms(form):
                    if isinstance(sub, tuple) and sub and sub[0] == "embedded" and sub not in seen:
                        seen.add(sub)
                        _, prefix, p, suffix, grouped = sub
                        ctx.ob("R2", f, f"user pattern `{p}` embedded as {prefix!r}+...+{suffix!r}", grouped,
                               "embedded inside a group" if grouped else
                               "embedded without a group: `a|b` becomes `^a|b`, whose second alternative is unanchored")


def _walk_forms(form):
    yield form
    if isinstance(form, tuple):
        for x in form:
            if isinstance(x, tuple):
                yield from _walk_forms(x)


def _sig(f, skip):
    a = f.node.args
    pos = [x.arg for x in a.posonlyargs + a.args][skip:]
    d = f.defaults()
    return [(p, txt(d[p]) if p in d else None) for p in pos]


def r3_signatures(ctx):
    ix = ctx.ix
    base = ix.module(BASE).functions
    pdf = check_functions(ix, PD)
    plf = check_functions(ix, PL)
    check_cls = ix.cls("pandera/api/checks.py::Check")
    for name in BUILTINS:
        ref = base.get(name)
        if ref is None:
            raise AnalysisError(f"base builtin {name} missing")
        want = _sig(ref, 1)
        for label, f, skip in (("pandas", pdf.get(name), 1), ("polars", plf.get(name), 1),
                               ("Check constructor", check_cls.method(name), 1)):
            if f is None:
                ctx.ob("R3", f"{name}", f"{label} signature of {name}", False, "missing")
                continue
            got = _sig(f, skip)
            ctx.ob("R3", f, f"{label} signature of {name}", got == want,
                   "equals base signature" if got == want else f"{got} != base {want}")


# ---- R4 ------------------------------------------------------------------------
def _twin_view(f):
    """Flow-sensitive expander that makes the guard atoms of a twin function independent of its local names:
    locals are expanded to their (single reaching) definitions, loop variables / accumulators get role-derived
    names, parameters are named by role."""
    roles = {}
    for i, p in enumerate(f.positional):
        if p in ("self", "cls"):
            continue
        if "schema" in p:
            roles[p] = "SCHEMA"
        elif "info" in p:
            roles[p] = "INFO"
        elif i == 1:
            roles[p] = "DATA"
    return FlowExpander(f.node, roles)


def _keep(text, node):
    t = text
    # conditions on the schema / column bookkeeping only: what the data contains is not part of the declared semantics
    return ("SCHEMA" in t or "INFO." in t) and "DATA" not in t


def _keep_with_data(text, node):
    """also conditions on the presence of a column in the data (twin bookkeeping functions)"""
    return "SCHEMA" in text or "INFO." in text or "DATA" in text or "ACC_" in text


def _rename(text):
    text = text.replace("get_lazyframe_column_names(DATA)", "DATA.columns")
    if text.endswith(" in DATA"):
        text += ".columns"
    return text


def _schema_cond(cfg, nid, view, with_data=False):
    return path_condition(cfg, nid, keep=_keep_with_data if with_data else _keep, rename=_rename, expand=view)


def _effect_sites(f, mapping):
    """(kind, key, stmt) effect sites of a twin function."""
    sites = []
    # verdict variables: `passed = False` ... CoreCheckResult(passed=passed, reason_code=R) is the same failing result as
    # CoreCheckResult(passed=False, reason_code=R) built at the point of the assignment
    cfg = cfg_of(f.node)
    users = []   # (verdict variable, statement node id, reason codes) of CoreCheckResult(passed=<variable>, ...)
    for st in function_stmts(f):
        for c in (calls_in(st) if isinstance(st, (ast.Expr, ast.Assign, ast.Return)) else []):
            if callee_last(c) == "CoreCheckResult" and isinstance(kw(c, "passed"), ast.Name):
                rc = kw(c, "reason_code")
                node = cfg.node_of(st)
                if node is not None:
                    users.append((kw(c, "passed").id, node.id, reason_codes_in(rc) if rc is not None else ["<none>"]))
    for s in function_stmts(f):
        if isinstance(s, ast.Assign) and len(s.targets) == 1 and isinstance(s.targets[0], ast.Name) \
                and isinstance(s.value, ast.Constant) and s.value.value is False and any(u[0] == s.targets[0].id for u in users):
            reach = cfg.reachable(cfg.node_of(s).id, skip_labels=("exc", "fin-exc"))
            codes = set()
            for var, nid, rcs in users:
                if var == s.targets[0].id and nid in reach:
                    codes.update(rcs)
            for r in sorted(codes):
                sites.append(("result", r, s))
    for s in function_stmts(f):
        if isinstance(s, ast.Raise) and isinstance(s.exc, ast.Call) and callee_last(s.exc) == "SchemaError":
            rc = kw(s.exc, "reason_code")
            for r in reason_codes_in(rc) if rc is not None else ["<none>"]:
                sites.append(("raise", r, s))
        for c in (calls_in(s) if isinstance(s, (ast.Expr, ast.Assign, ast.Return)) else []):
            if callee_last(c) == "CoreCheckResult":
                p = kw(c, "passed")
                if isinstance(p, ast.Constant) and p.value is False:
                    rc = kw(c, "reason_code")
                    for r in reason_codes_in(rc) if rc is not None else ["<none>"]:
                        sites.append(("result", r, s))
            if callee_last(c) in ("append", "extend") and isinstance(c.func, ast.Attribute) and isinstance(c.func.value, ast.Name) \
                    and mapping.get(c.func.value.id, "").startswith("ACC_"):
                sites.append(("append", mapping[c.func.value.id][4:], s))
    return sites


def r4_twins(ctx):
    ix = ctx.ix
    pdc, plc = ix.cls(PDC), ix.cls(PLC)
    for fname in ("add_missing_columns", "strict_filter_columns", "check_column_presence",
                  "check_column_values_are_unique", "collect_column_info"):
        fa, fb = pdc.lookup(fname), plc.lookup(fname)
        if fa is None or fb is None:
            raise AnalysisError(f"twin function {fname} missing")
        ctx.touched(fa, fb)
        fa, fb = expanded(ix, fa), expanded(ix, fb)   # private helpers next to the function belong to it
        ca, cb = cfg_of(fa.node), cfg_of(fb.node)
        va, vb = _twin_view(fa), _twin_view(fb)
        sa = {}
        for kind, key, st in _effect_sites(fa, va.acc):
            sa.setdefault((kind, key), []).append(_schema_cond(ca, ca.node_of(st).id, va, fname == "collect_column_info"))
        sb = {}
        for kind, key, st in _effect_sites(fb, vb.acc):
            sb.setdefault((kind, key), []).append(_schema_cond(cb, cb.node_of(st).id, vb, fname == "collect_column_info"))
        for k in sorted(set(sa) | set(sb)):
            ga = sorted(sa.get(k, []), key=repr)
            gb = sorted(sb.get(k, []), key=repr)
            ok = ga == gb
            ctx.ob("R4", fb, f"{fname}: {k[0]} {k[1]}", ok,
                   f"same condition on schema attributes in both backends: {[show_condition(x) for x in ga]}" if ok else
                   f"pandas reaches it under {[show_condition(x) for x in ga]}, polars under {[show_condition(x) for x in gb]}")
    # top-level guards that disable the stage entirely (early `return check_obj`)
    for fname_a, fname_b in (("add_missing_columns", "add_missing_columns"), ("strict_filter_columns", "strict_filter_columns")):
        fa, fb = expanded(ix, pdc.lookup(fname_a)), expanded(ix, plc.lookup(fname_b))
        ea, eb = _early_return_tests(fa), _early_return_tests(fb)
        ctx.ob("R4", fb, f"{fname_a}: stage-disabled condition", ea == eb and bool(ea),
               f"both return the input untouched under {ea}" if ea == eb else f"pandas {ea}, polars {eb}")
    # parser stages
    va, vb = expanded(ix, pdc.lookup("validate")), expanded(ix, plc.lookup("validate"))
    stages = []
    for f in (va, vb):
        loops = callable_list_loops(f)
        names = []
        for loop, fns, lname in loops:
            if any(isinstance(n, ast.Attribute) and n.attr == "passed" for b in loop.body for n in ast.walk(b)):
                continue
            names = [e.attr for e in fns if isinstance(e, ast.Attribute)]
        stages.append(names)
    norm = lambda l: sorted(n.rstrip("s") for n in l)
    ctx.ob("R4", vb, "core parser stages", norm(stages[0]) == norm(stages[1]) and bool(stages[0]),
           f"pandas {stages[0]} / polars {stages[1]} (same stages" +
           ("" if [n.rstrip('s') for n in stages[0]] == [n.rstrip('s') for n in stages[1]] else "; order differs: defaults vs coercion, reported, not armed") + ")")
    if [n.rstrip("s") for n in stages[0]] != [n.rstrip("s") for n in stages[1]]:
        ctx.notes.append(f"R4: parser stage order differs between backends: pandas {stages[0]}, polars {stages[1]}")


def _early_return_tests(f):
    """Conditions (over schema / column-info attributes) under which the stage hands its input back untouched:
    `return <data parameter>` statements that no assignment to the parameter reaches."""
    cfg = cfg_of(f.node)
    rd = cfg.reaching_defs()
    view = _twin_view(f)
    data = f.positional[1]
    mutated = set()
    for s in function_stmts(f):
        for c in calls_in(s):
            if isinstance(c.func, ast.Attribute) and txt(c.func.value) == data and isinstance(kw(c, "inplace"), ast.Constant) and kw(c, "inplace").value is True:
                mutated.add(cfg.node_of(s).id)
    out = []
    for s in function_stmts(f):
        if isinstance(s, ast.Return) and isinstance(s.value, ast.Name) and s.value.id == data:
            n = cfg.node_of(s)
            defs = rd[n.id].get(data, set())
            if defs - {cfg.entry.id}:
                continue
            if any(n.id in cfg.reachable(m) for m in mutated):
                continue
            pc = _schema_cond(cfg, n.id, view)
            if pc[0]:
                out.append(show_condition(pc))
    return sorted(out)


NULL_OPS = {"dropna", "drop_nulls", "is_not_null", "is_null", "notna", "isna", "notnull", "isnull", "fill_null", "fillna", "drop_nans"}


def r5_uniqueness_nulls(ctx):
    """Uniqueness means the same on both backends with respect to nulls: pandas `duplicated()` and polars
    `is_duplicated()` both count repeated nulls as duplicates, so neither uniqueness check may filter or mask nulls."""
    ix = ctx.ix
    sites = [("pandera/backends/pandas/array.py::ArraySchemaBackend", "check_unique"),
             (PDC, "check_column_values_are_unique"),
             ("pandera/backends/polars/components.py::ColumnBackend", "check_unique"),
             (PLC, "check_column_values_are_unique")]
    for q, name in sites:
        f = ix.cls(q).lookup(name)
        if f is None:
            raise AnalysisError(f"{q}.{name} missing")
        ctx.touched(f)
        from ..util import same_module_helpers
        fam = same_module_helpers(ix, f)
        dup = [c for g in fam for c in calls_in(g.node, nested=True) if callee_last(c) in ("duplicated", "is_duplicated", "is_unique", "unique", "n_unique")]
        nulls = [c for g in fam for c in calls_in(g.node, nested=True) if callee_last(c) in NULL_OPS]
        flavour = "polars" if "/polars/" in q else "pandas"
        ctx.ob("R5", f, f"{flavour} {name}: duplicates are detected on the unfiltered values (nulls count as equal)", bool(dup) and not nulls,
               f"{[callee_last(c) for c in dup]} on the column as is" if dup and not nulls else
               (f"`{txt(nulls[0])[:70]}` removes / masks nulls before or after duplicate detection: repeated nulls are duplicates for the other "
                "backend (pandas Series.duplicated and polars is_duplicated treat nulls as equal), so the two backends disagree on unique+nullable columns"
                if nulls else "no duplicate detection call found"), f.loc(nulls[0]) if nulls else "")


def r6_default_declared(ctx):
    """Both containers decide `this column declares a default` by `default is (not) None` alone - a truthiness test
    drops the legal defaults 0 / False / ''."""
    ix = ctx.ix
    for q, name in ((PDC, "set_defaults"), (PLC, "set_default")):
        f = ix.cls(q).lookup(name)
        if f is None:
            raise AnalysisError(f"{q}.{name} missing")
        ctx.touched(f)
        fx = FlowExpander(f.node)
        calls = [c for c in calls_in(f.node) if isinstance(c.func, ast.Attribute) and (
            callee_last(c) == "set_default" or (callee_last(c) in ("fillna", "fill_null") and any("default" in txt(a) for a in c.args)))]
        flavour = "polars" if "/polars/" in q else "pandas"
        if not calls:
            ctx.ob("R6", f, f"{flavour} {name}: component defaults are applied", False, "no set_default / fillna(default) call")
            continue
        for c in calls:
            st = c
            from ..util import enclosing_stmt
            pc = path_condition(fx.cfg, fx.cfg.node_of(enclosing_stmt(c)).id, expand=fx, keep=lambda t, n: ".default" in t or "default" in t.split("(")[0])
            # comprehension filters feeding the loop variable count as guards too
            comp_atoms = []
            for n in ast.walk(f.node):
                if isinstance(n, (ast.ListComp, ast.GeneratorExp)):
                    for g in n.generators:
                        for cond in g.ifs:
                            for a in (cond.values if isinstance(cond, ast.BoolOp) else [cond]):
                                if "default" in txt(a):
                                    comp_atoms.append(a)
            from ..util import canon_atom, strip_not
            atoms = []
            for a in comp_atoms:
                e, pol = strip_not(a)
                t, p2 = canon_atom(e)
                atoms.append((t, pol == p2))
            names = list(pc[0])
            sat = next(iter(pc[1])) if len(pc[1]) == 1 else ()
            atoms += list(zip(names, sat))
            tests = [(t, v) for t, v in atoms if not t.startswith("hasattr(")]
            ok = bool(tests) and all(t.endswith(".default is None") and v is False for t, v in tests)
            ctx.ob("R6", f, f"{flavour} {name}: a default is declared iff `default is not None`", ok,
                   f"guard {tests}" if ok else
                   f"the default is applied under {tests}: a test other than `default is not None` (e.g. truthiness) treats the legal defaults "
                   "0 / False / '' as undeclared on this backend only, so the parsed tables differ between pandas and polars", f.loc(c))


def _truthiness_atoms(test):
    """atoms of a condition that are evaluated for truthiness (through and / or / not)"""
    if isinstance(test, ast.BoolOp):
        for v in test.values:
            yield from _truthiness_atoms(v)
    elif isinstance(test, ast.UnaryOp) and isinstance(test.op, ast.Not):
        yield from _truthiness_atoms(test.operand)
    else:
        yield test


SELFTEST_TRUTHINESS = """
def set_default_bad(check_obj, schema):
    default = getattr(schema, "default", None)
    if default:
        return check_obj.fill(default)
    return check_obj

def set_default_ok(check_obj, schema):
    if schema.default is None:
        return check_obj
    return check_obj.fill(schema.default)
"""


def r6_no_truthiness_of_default(ctx, ix=None):
    """No backend function of either flavour tests a declared default for truthiness (`if default:` / `x if default
    else y` / `default and ...`, directly or through a local): the component-level set_default functions are reached by
    the containers, and 0 / False / '' are legal defaults that the other backend fills."""
    if ix is None:
        from ..index import Index

        class _S:
            def __init__(self):
                self.obs, self.stats = [], {}

            def ob(self, rule, f, construct, ok, detail, loc=None):
                self.obs.append((f.name, ok))
        sink = _S()
        r6_no_truthiness_of_default(sink, Index.from_sources({"pandera/backends/pandas/_selftest.py": SELFTEST_TRUTHINESS}))
        if sink.obs != [("set_default_bad", False)]:
            raise AnalysisError(f"truthiness-of-default self-test failed: {sink.obs}")
    ix = ix or ctx.ix
    n = 0
    for m in ix.modules.values():
        if not m.path.startswith(("pandera/backends/pandas/", "pandera/backends/polars/")):
            continue
        for f in m.all_functions:
            if "default" not in ast.dump(f.node):
                continue
            fx = None
            tests = []
            for node in walk_no_nested(f.node):
                if isinstance(node, (ast.If, ast.While, ast.IfExp)):
                    tests.append(node.test)
                elif isinstance(node, ast.comprehension):
                    tests += node.ifs
                elif isinstance(node, ast.Assert):
                    tests.append(node.test)
            for t in tests:
                for a in _truthiness_atoms(t):
                    if fx is None:
                        fx = FlowExpander(f.node)
                    e = fx.expand(a)
                    is_default = (isinstance(e, ast.Attribute) and e.attr == "default") or (
                        isinstance(e, ast.Call) and isinstance(e.func, ast.Name) and e.func.id == "getattr" and len(e.args) >= 2
                        and isinstance(e.args[1], ast.Constant) and e.args[1].value == "default")
                    if not is_default:
                        continue
                    n += 1
                    flavour = "polars" if "/polars/" in m.path else "pandas"
                    ctx.ob("R6", f, f"{flavour} {f.short}: a default is declared iff it is not None (never by truthiness)", False,
                           f"`{txt(a)}` (= `{txt(e)}`) is tested for truthiness in `{txt(t)[:60]}`: the legal defaults 0 / False / '' count as undeclared "
                           "on this backend only, so nulls stay (or the column is rejected) where the other backend fills them", f.loc(a))
    ctx.stats["truthiness_tests_of_default"] = n


def _ancestors_within(node, root):
    p_ = getattr(node, "_parent", None)
    while p_ is not None and p_ is not root:
        yield p_
        p_ = getattr(p_, "_parent", None)


def r7_polars_default_fills_nulls(ctx):
    """pandas fills every missing value of a column with its default (`fillna`).  polars distinguishes null from NaN,
    so the fill expression of the polars column backend must apply `fill_null` on every path (a float column may
    additionally `fill_nan`): a path with `fill_nan` only leaves the nulls of a float column in place, and the polars
    schema rejects (or returns with nulls) a table the pandas schema fills and accepts."""
    ix = ctx.ix
    m = ix.module("pandera/backends/polars/components.py")
    cb = m.classes.get("ColumnBackend")
    f0 = cb.lookup("set_default") if cb is not None else None
    if f0 is None:
        raise AnalysisError("polars ColumnBackend.set_default missing")
    ctx.touched(f0)
    f = expanded(ix, f0)
    cfg = cfg_of(f.node)
    rd = cfg.reaching_defs()
    sinks = [c for c in calls_in(f.node) if callee_last(c) in ("with_columns", "select") and c.args]
    if not sinks:
        raise AnalysisError("polars ColumnBackend.set_default: no with_columns(...) found")

    def fills(expr, nid, seen):
        """every value `expr` may have at node nid went through .fill_null(...)"""
        if isinstance(expr, ast.IfExp):
            return fills(expr.body, nid, seen) and fills(expr.orelse, nid, seen)
        if any(isinstance(x, ast.Call) and callee_last(x) == "fill_null" for x in ast.walk(expr)
               if not any(isinstance(p_, ast.IfExp) for p_ in _ancestors_within(x, expr))):
            return True
        for sub in [x for x in ast.walk(expr) if isinstance(x, ast.IfExp)]:
            if fills(sub, nid, seen):
                return True
        names = [x for x in ast.walk(expr) if isinstance(x, ast.Name) and isinstance(x.ctx, ast.Load)]
        for nm in names:
            defs = rd.get(nid, {}).get(nm.id, set())
            real = [d for d in defs if cfg.nodes[d].kind == "stmt" and isinstance(cfg.nodes[d].ast, (ast.Assign, ast.AnnAssign))]
            if not real or len(real) != len(defs):
                continue
            if all((d, nm.id) in seen or fills(cfg.nodes[d].ast.value, d, seen | {(d, nm.id)}) for d in real):
                return True
        return False

    from ..util import enclosing_stmt
    for c in sinks:
        node = cfg.node_of(enclosing_stmt(c))
        ok = node is not None and fills(c.args[0], node.id, frozenset())
        ctx.ob("R7", f0, "polars set_default fills nulls on every path (fill_nan alone does not)", ok,
               "every definition reaching the fill expression applies fill_null" if ok else
               f"some path reaches `{txt(c)[:50]}` with a fill expression that never applies fill_null (float columns: fill_nan only): "
               "pl.DataFrame({'a': [1.0, None]}) validated by Column(float, default=1.5) is rejected for its null, the same pandas table is filled and accepted",
               f0.loc(c))


def r8_add_missing_columns_keeps_frame(ctx):
    """add_missing_columns adds the declared columns that are absent; it does not remove or reorder what the frame
    already has (strict is a separate option).  The column selection that fixes the final order therefore has to be
    computed from the frame's own columns as well - a selection built from schema.columns alone drops every undeclared
    column and moves the existing ones to schema order on one backend only."""
    ix = ctx.ix
    for q in (PDC, PLC):
        f0 = ix.cls(q).lookup("add_missing_columns")
        if f0 is None:
            raise AnalysisError(f"{q}.add_missing_columns missing")
        ctx.touched(f0)
        f = expanded(ix, f0)
        data = f0.positional[1]
        ex = Expander(f.node)
        flavour = "polars" if "/polars/" in q else "pandas"
        sels = []
        for c in calls_in(f.node):
            if callee_last(c) == "select" and isinstance(c.func, ast.Attribute) and c.args:
                sels.append((c, c.args[0]))
        for n in walk_no_nested(f.node):
            if isinstance(n, ast.Subscript) and isinstance(n.ctx, ast.Load) and isinstance(n.slice, ast.Name) and isinstance(n.value, ast.Name) \
                    and isinstance(getattr(n, "_parent", None), (ast.Assign, ast.Return)):
                sels.append((n, n.slice))
        if not sels:
            ctx.ob("R8", f0, f"{flavour} add_missing_columns keeps the frame's own columns", True, "no re-selection of columns: columns are only added")
            continue
        cfg8 = cfg_of(f.node)
        rd8 = cfg8.reaching_defs()
        for node, a in sels:
            from_frame = False
            acc_ok = True
            if isinstance(a, ast.Name):
                from ..util import enclosing_stmt
                nd = cfg8.node_of(enclosing_stmt(node))
                defs = [cfg8.nodes[d] for d in (rd8.get(nd.id, {}).get(a.id, set()) if nd is not None else set())]
                vals = [d.ast.value for d in defs if d.kind == "stmt" and isinstance(d.ast, ast.Assign)]
                # the list that reaches the selection was (re)built by a plain assignment: judge that value, not the loop that filled an earlier one
                if vals and not any(isinstance(v, (ast.List, ast.Tuple)) and not v.elts for v in vals):
                    acc_ok = False
                    for v in vals:
                        for d in ex.closure(v):
                            for x in ast.walk(d):
                                if isinstance(x, ast.Attribute) and x.attr == "columns" and isinstance(x.value, ast.Name) and x.value.id == data:
                                    from_frame = True
                                if isinstance(x, ast.Call) and callee_last(x) in ("get_lazyframe_column_names", "collect_schema") and data in txt(x):
                                    from_frame = True
            for d in (ex.closure(a) if acc_ok else []):
                for x in ast.walk(d):
                    if isinstance(x, ast.Attribute) and x.attr == "columns" and isinstance(x.value, ast.Name) and x.value.id == data:
                        from_frame = True
                    if isinstance(x, ast.Call) and callee_last(x) in ("get_lazyframe_column_names", "collect_schema") and data in txt(x):
                        from_frame = True
            # accumulators filled while looping over the frame's columns
            for nm in set() if not acc_ok else {x.id for d in ex.closure(a) for x in ast.walk(d) if isinstance(x, ast.Name)} | ({a.id} if isinstance(a, ast.Name) else set()):
                for lp in walk_no_nested(f.node):
                    if isinstance(lp, ast.For) and any(isinstance(x, ast.Attribute) and x.attr == "columns" and isinstance(x.value, ast.Name) and x.value.id == data
                                                       for x in ast.walk(lp.iter)):
                        if any(isinstance(cc, ast.Call) and isinstance(cc.func, ast.Attribute) and cc.func.attr in ("append", "extend", "insert")
                               and isinstance(cc.func.value, ast.Name) and cc.func.value.id == nm for cc in ast.walk(lp)):
                            from_frame = True
            ctx.ob("R8", f0, f"{flavour} add_missing_columns keeps the frame's own columns", from_frame,
                   "the final column order is computed from the frame's columns and the missing ones" if from_frame else
                   f"`{txt(node)[:60]}` selects the schema's columns only: undeclared columns of the incoming frame are dropped and existing ones reordered "
                   "(pandas keeps both) - the parsed tables differ between the backends", f0.loc(node))


def r9_polars_default_is_literal(ctx):
    """In a polars expression context (`with_columns`, `fill_null`, `fill_nan`) a plain `str` is a *column reference*.
    A declared default therefore reaches such a call only as `pl.lit(default)` (or under an `isinstance(default, pl.Expr)`
    test): a bare string default is otherwise looked up as a column - ColumnNotFoundError for 'unknown', and a silent copy
    of another column when the default happens to be a column name - where pandas fills the literal."""
    ix = ctx.ix
    n = 0
    for m in ix.modules.values():
        if not m.path.startswith("pandera/backends/polars/"):
            continue
        for f in m.all_functions:
            if "default" not in ast.dump(f.node):
                continue
            ex = Expander(f.node)
            for c in calls_in(f.node):
                if callee_last(c) not in ("with_columns", "fill_null", "fill_nan") or not isinstance(c.func, ast.Attribute):
                    continue
                exprs = list(c.args)
                for k in c.keywords:
                    exprs.append(k.value)
                bare = []
                for e in exprs:
                    for d in ex.closure(e):
                        lit_spans = [x for x in ast.walk(d) if isinstance(x, ast.Call) and callee_last(x) == "lit"]
                        inside_lit = {id(y) for x in lit_spans for y in ast.walk(x)}
                        for x in ast.walk(d):
                            if isinstance(x, ast.Attribute) and x.attr == "default" and isinstance(x.ctx, ast.Load) and id(x) not in inside_lit:
                                # `default_value = schema.default` under `isinstance(schema.default, pl.Expr)` is an expression already
                                par = getattr(x, "_parent", None)
                                guarded = False
                                while par is not None and par is not f.node:
                                    if isinstance(par, (ast.If, ast.IfExp)) and any(isinstance(t, ast.Call) and callee_last(t) == "isinstance" and "Expr" in txt(t)
                                                                                    for t in ast.walk(par.test)):
                                        guarded = True
                                    par = getattr(par, "_parent", None)
                                if not guarded:
                                    # `v = schema.default` followed by `if not isinstance(v, pl.Expr): v = pl.lit(...)`: what is
                                    # left of the bare value at the sink is an expression
                                    asg = getattr(x, "_parent", None)
                                    if isinstance(asg, ast.Assign) and len(asg.targets) == 1 and isinstance(asg.targets[0], ast.Name):
                                        v = asg.targets[0].id
                                        for iff in walk_no_nested(f.node):
                                            if not isinstance(iff, ast.If):
                                                continue
                                            t, neg = iff.test, False
                                            while isinstance(t, ast.UnaryOp) and isinstance(t.op, ast.Not):
                                                t, neg = t.operand, not neg
                                            if isinstance(t, ast.Call) and callee_last(t) == "isinstance" and len(t.args) == 2 and txt(t.args[0]) == v and "Expr" in txt(t.args[1]):
                                                branch = iff.body if neg else iff.orelse
                                                if any(isinstance(a, ast.Assign) and any(isinstance(tt, ast.Name) and tt.id == v for tt in a.targets)
                                                       and isinstance(a.value, ast.Call) and callee_last(a.value) == "lit" for a in branch) \
                                                        and iff.lineno > asg.lineno:
                                                    guarded = True
                                if not guarded:
                                    bare.append(x)
                if not exprs:
                    continue
                if any("default" in ast.dump(d) for e in exprs for d in ex.closure(e)):
                    n += 1
                    ctx.ob("R9", f, f"{f.short}: the default reaches `{callee_last(c)}` as a literal", not bare,
                           "wrapped in pl.lit(...) / tested to be an expression" if not bare else
                           f"`{txt(bare[0])}` is passed to `{txt(c)[:60]}` bare: polars reads a str there as a column name - Column(str, default='unknown') "
                           "raises ColumnNotFoundError, default='city' silently copies the column `city`; pandas fills the literal", f.loc(c))
    ctx.stats["polars_default_sinks"] = n
    if n < 2:
        raise AnalysisError(f"polars backends: expected at least 2 places where a default reaches an expression context, found {n}")


def r10_polars_defaults_skip_absent_columns(ctx):
    """Default filling is a parser stage: it runs before the presence check.  The pandas container skips a column the frame
    does not have (`col_name not in check_obj.columns`); the polars container has to do the same for non-regex columns,
    otherwise an absent optional column that declares a default makes `pl.col(name)` raise ColumnNotFoundError out of
    validate where pandas accepts the table unchanged."""
    ix = ctx.ix
    f0 = ix.cls(PLC).lookup("set_default")
    if f0 is None:
        raise AnalysisError("polars container set_default missing")
    ctx.touched(f0)
    f = expanded(ix, f0)
    fx = FlowExpander(f.node)
    calls = [c for c in calls_in(f.node) if callee_last(c) == "set_default" and isinstance(c.func, ast.Attribute)]
    if not calls:
        raise AnalysisError("polars container set_default: component call not found")
    from ..util import enclosing_stmt
    for c in calls:
        node = fx.cfg.node_of(enclosing_stmt(c))
        tests = [fx.expand(t) for t, _ in fx.cfg.guards(node.id)]
        comp = [cond for n in ast.walk(f.node) if isinstance(n, (ast.ListComp, ast.GeneratorExp)) for g in n.generators for cond in g.ifs]
        guarded = any(isinstance(x, ast.Compare) and any(isinstance(o, (ast.In, ast.NotIn)) for o in x.ops) and
                      ("get_lazyframe_column_names" in txt(x) or ".columns" in txt(x.comparators[0]) or "collect_schema" in txt(x))
                      for t in tests + comp for x in ast.walk(t))
        if not guarded:
            # the membership may be tested against a local holding the frame's column names
            names = {x.id for t in tests + comp for y in ast.walk(t) if isinstance(y, ast.Compare) and any(isinstance(o, (ast.In, ast.NotIn)) for o in y.ops)
                     for x in ast.walk(y.comparators[0]) if isinstance(x, ast.Name)}
            ex = Expander(f.node)
            guarded = any("get_lazyframe_column_names" in txt(d) or "collect_schema" in txt(d) for nm in names for d in ex.defs.get(nm, []))
        ctx.ob("R10", f0, "polars container: defaults are filled only for columns the frame has", guarded,
               "absent columns are skipped" if guarded else
               f"`{txt(c)[:60]}` runs for every column that declares a default, present or not: DataFrameSchema({{'a': Column(int), 'b': Column(int, default=0, "
               "required=False)}).validate(pl.DataFrame({'a':[1]})) raises polars ColumnNotFoundError; pandas accepts", f0.loc(c))


def r11_polars_nullable_counts_nulls(ctx):
    """`nullable=False` rejects missing values.  pandas has one kind (`isna`); polars has null and, for floats, NaN.  The
    polars nullable check therefore tests `is_not_null()` on every path and may add `is_not_nan()` for floats.
    `is_not_nan()` alone answers null for a null cell, and polars aggregations / filters skip null answers - a float
    column of Nones passes on polars and fails on pandas."""
    ix = ctx.ix
    m = ix.module("pandera/backends/polars/components.py")
    cb = m.classes.get("ColumnBackend")
    f0 = cb.lookup("check_nullable") if cb is not None else None
    if f0 is None:
        raise AnalysisError("polars ColumnBackend.check_nullable missing")
    ctx.touched(f0)
    f = expanded(ix, f0)
    cfg = cfg_of(f.node)
    rd = cfg.reaching_defs()
    sinks = [c for c in calls_in(f.node) if callee_last(c) == "select" and c.args and isinstance(c.func, ast.Attribute)
             and isinstance(c.func.value, ast.Name) and c.func.value.id == f0.positional[1]]
    if not sinks:
        raise AnalysisError("polars check_nullable: `check_obj.select(<null test>)` not found")

    def tests_null(expr, nid, seen):
        if isinstance(expr, ast.IfExp):   # both alternatives have to ask
            return tests_null(expr.body, nid, seen) and tests_null(expr.orelse, nid, seen)
        if any(isinstance(x, ast.Call) and callee_last(x) in ("is_not_null", "is_null") for x in ast.walk(expr)
               if not any(isinstance(p_, ast.IfExp) for p_ in _ancestors_within(x, expr))):
            return True
        for sub in [x for x in ast.walk(expr) if isinstance(x, ast.IfExp)]:
            if tests_null(sub, nid, seen):
                return True
        for nm in [x for x in ast.walk(expr) if isinstance(x, ast.Name) and isinstance(x.ctx, ast.Load)]:
            defs = rd.get(nid, {}).get(nm.id, set())
            real = [d for d in defs if cfg.nodes[d].kind == "stmt" and isinstance(cfg.nodes[d].ast, (ast.Assign, ast.AnnAssign))]
            if not real or len(real) != len(defs):
                continue
            if all((d, nm.id) in seen or tests_null(cfg.nodes[d].ast.value, d, seen | {(d, nm.id)}) for d in real):
                return True
        return False

    from ..util import enclosing_stmt
    for c in sinks[:1]:
        node = cfg.node_of(enclosing_stmt(c))
        ok = node is not None and tests_null(c.args[0], node.id, frozenset())
        ctx.ob("R11", f0, "polars check_nullable tests is_not_null on every path (is_not_nan alone skips nulls)", ok,
               "every definition reaching the null test applies is_not_null" if ok else
               f"some path reaches `{txt(c)[:50]}` with a test that never asks is_not_null (floats: is_not_nan only): a null cell yields a null answer, which "
               "`all()` and the failure-case filter skip - pl.DataFrame({'a': [None, None]}, schema={'a': pl.Float64}) passes Column(float, nullable=False)",
               f0.loc(c))


# polars expression methods that read a python `str` argument as a *column name* (polars: parse_into_expression without
# str_as_lit); comparison operators / eq, ne, gt, ge, lt, le / is_in / the str namespace read it as a literal
STR_IS_A_COLUMN = {"is_between", "clip", "over", "sort_by", "dot"}


def r12_polars_nan_test_follows_the_data(ctx):
    """pandas asks the *data* whether it has missing values (`hasnans` sees NaN in any float data).  The polars nullable
    check counts NaN as missing for floating data; whether that part applies may therefore depend on the data's dtype
    only - conditioning it on the *declared* dtype as well makes `Column(nullable=False)` without a dtype (or with a
    non-float dtype and no coercion) accept NaN that pandas rejects."""
    ix = ctx.ix
    m = ix.module("pandera/backends/polars/components.py")
    cb = m.classes.get("ColumnBackend")
    f0 = cb.lookup("check_nullable") if cb is not None else None
    if f0 is None:
        raise AnalysisError("polars ColumnBackend.check_nullable missing")
    f = expanded(ix, f0)
    cfg = cfg_of(f.node)
    from ..util import bool_atoms, enclosing_stmt, ifexp_guards
    n = 0
    for c in calls_in(f.node):
        if callee_last(c) not in ("is_not_nan", "is_nan"):
            continue
        n += 1
        st = enclosing_stmt(c)
        node = cfg.node_of(st)
        atoms = {}
        for t, pol in list(cfg.guards(node.id) if node is not None else []) + list(ifexp_guards(c, st)):
            atoms.update(bool_atoms(t))
        declared = [a for a, an in atoms.items() if any(isinstance(x, ast.Attribute) and x.attr == "dtype" and isinstance(x.value, ast.Name) and x.value.id != f0.positional[1]
                                                          for x in ast.walk(an))]
        ctx.ob("R12", f0, "polars check_nullable: the NaN part depends on the dtype of the data only", not declared,
               f"conditions: {sorted(atoms)}" if not declared else
               f"`{txt(c)[:40]}` applies only when `{declared[0][:70]}` holds - a test of the declared dtype: Column(nullable=False) without a dtype over float data with NaN "
               "passes on polars and fails on pandas", f0.loc(c))
    if n < 1:
        raise AnalysisError("polars check_nullable: NaN test not found")


def r13_polars_statistics_are_literals(ctx):
    """A built-in check compares the data with the *values* the user gave.  Some polars expression methods read a python
    str argument as a column name (`is_between("a", "f")` compares with columns a and f): a statistic whose declared type
    admits str reaches such a method only through `pl.lit(...)` - otherwise Check.in_range("a", "f") on a str column raises
    ColumnNotFoundError, or silently compares against same-named columns, where pandas compares with the strings."""
    ix = ctx.ix
    m = ix.module("pandera/backends/polars/builtin_checks.py")
    n = 0
    for name, f in m.functions.items():
        args = f.node.args
        stats = {}
        for a in args.args[1:] + args.kwonlyargs:
            ann = txt(a.annotation) if a.annotation is not None else "Any"
            stats[a.arg] = ann
        if not stats:
            continue
        for c in calls_in(f.node):
            if callee_last(c) not in STR_IS_A_COLUMN or not isinstance(c.func, ast.Attribute):
                continue
            for a in list(c.args) + [k.value for k in c.keywords]:
                if isinstance(a, ast.Name) and a.id in stats:
                    n += 1
                    ann = stats[a.id]
                    admits_str = not any(t in ann for t in ("int", "float", "bool")) or "str" in ann or "Any" in ann
                    ctx.ob("R13", f, f"polars {name}: `{a.id}` reaches `{callee_last(c)}` as a value", not admits_str,
                           f"`{a.id}: {ann}` cannot be a str" if not admits_str else
                           f"`{txt(c)[:60]}` reads a str `{a.id}` as a column name: Check.{name}('a', 'f') on a str column raises ColumnNotFoundError (or compares against columns a / f) "
                           "on polars and compares with the strings on pandas", f.loc(c))
    ctx.stats["polars_column_parsing_method_args"] = n


def r1_pyspark(ctx):
    """thorough: pyspark forms where expressible (best effort, never a VIOLATION source on unknown forms)."""
    ix = ctx.ix
    m = ix.by_path.get(PS)
    if m is None:
        return
    n = 0
    for name, f in m.functions.items():
        if name not in BUILTINS:
            continue
        try:
            rows = compare_with_spec(name, f.node, "pyspark")
        except PredError as e:
            ctx.notes.append(f"pyspark {name}: form not expressible ({e})")
            continue
        n += 1
        for a, ok, detail in rows:
            ctx.ob("R1", f, f"pyspark {name} under {a or 'no options'}", ok, detail)
    ctx.stats["pyspark_checks_normalised"] = n


def run(ctx):
    r1_predicates(ctx)
    r2_embedding(ctx)
    r3_signatures(ctx)
    r4_twins(ctx)
    r5_uniqueness_nulls(ctx)
    r6_default_declared(ctx)
    r6_no_truthiness_of_default(ctx)
    r7_polars_default_fills_nulls(ctx)
    r8_add_missing_columns_keeps_frame(ctx)
    r9_polars_default_is_literal(ctx)
    r10_polars_defaults_skip_absent_columns(ctx)
    r11_polars_nullable_counts_nulls(ctx)
    r12_polars_nan_test_follows_the_data(ctx)
    r13_polars_statistics_are_literals(ctx)
    if ctx.tier == "thorough":
        r1_pyspark(ctx)
    ctx.assume("pandas operators/str accessors and polars expression methods have their documented element-wise meaning")
