"""C12 - schema serialisation round-trips: writer/reader tables, template
slots, quoting by declared type."""

from __future__ import annotations

import ast
import string

from ..index import AnalysisError, dotted, function_stmts, parent, walk_no_nested
from ..util import arg, callee_last, calls_in, kw, txt

EXPLANATION = (
    "Static table analysis of pandera/io/pandas_io.py and pandera/schema_statistics/pandas.py (ast only). For the "
    "attribute sets named by the property (columns: dtype, checks, nullable, unique, coerce, required, regex, title, "
    "description; index levels: dtype, checks, nullable, unique, coerce, name, title, description; schema: dtype, "
    "coerce, strict, name, ordered, unique, report_duplicates, unique_column_names, add_missing_columns, title, "
    "description) it decides that every attribute survives every hop: statistics dict -> _serialize_component_stats "
    "-> _deserialize_component_stats -> constructor; serialize_schema keys == keys read by deserialize_schema; "
    "script templates have a slot per attribute, slot set == .format keyword set, `<kw>={slot}` names agree with "
    "constructor parameters (R1,R2); a slot fed by a value whose declared type admits a bare str is quoted/repr-ed "
    "(R3); every checks slot goes through _format_checks (R4); check statistics keying and the value/options "
    "envelope agree between writer and reader (R5). (R6) the statistics that reach the rebuilt Check went through the dtype-aware converter (role-based: the converted container is what is passed on); (R7) serialisers never write a MultiIndex property that aggregates over its levels (coerce, names) as an option of the parent; (R8) an engine dtype that computes `type` from its fields in __post_init__ and overrides __str__ prints self.type or every such field, so the alias written to YAML/JSON/script determines the dtype; (R9) to_script decides the Timestamp/Timedelta imports on text containing every rendered piece (columns, index, dataframe checks). " 
    " (R10) definite assignment: no function of the io / statistics modules reads a local that a branch-only path from its entry leaves unassigned (CFG may-analysis, optimistic about try bodies and loop bodies, correlated guards pruned) - an UnboundLocalError there would abort the round trip. " 
    " (R11) a hop that forwards component statistics through a key filter (allow-list / deny-list of attribute names) lets every attribute of the property's sets through. " 
    " (R12) every `dtype` entry of a mapping returned by a serialiser is rendered with str() / the alias helper (a raw DataType object is not YAML / JSON serialisable). " 
    " (R13) the script generator renders values with repr() only - no value between hand-written quote characters (R3 no longer accepts hand quoting as quoting). " 
    " (R14) index statistics are read from the level components (.indexes), never from the lossy MultiIndex.columns; (R15) serialize_schema keys the columns mapping by the column label itself (no str(label)). " 
    "NOT decided: textual idempotence of YAML, verdict equality on "
    "probe frames, dtype string aliases resolving at run time."
    ' (R16) every construction of a MultiIndex in the reader and MULTIINDEX_TEMPLATE supplies the options the property lists as serialisable (coerce, strict, ordered, name, unique); today none is (known findings).'
    " (R17) the datetime branch of the writer's and the reader's stat converter (handle_stat_dtype) is entered through dtypes.is_datetime - the predicate the statistics producer classifies with, which covers time-zone-aware columns - not by `.check()` against the naive DateTime dtype."
    " (R18) the writer's per-statistic converter (the function that renders its own parameter with strftime, looked up in the source as written) returns the statistic itself or something obtained from it alone - never another value."
    " (R20) the writer's and the reader's per-statistic converter has a branch for collection-valued statistics (isin / notin) that converts the elements. R5 additionally requires that whatever parse_checks records for one check is computed from that check alone (no mutable local written and read across the loop over the checks without being re-created)."
)
LEVEL_RULE = "one obligation per (attribute, hop) / template slot / dictionary key found in the current tree"
FLOORS = {"R1": 90, "R2": 14, "R3": 20, "R4": 3, "R5": 5, "R6": 3, "R7": 3, "R8": 1, "R9": 1, "R10": 1, "R12": 2, "R13": 1, "R14": 1, "R15": 1}

IO = "pandera/io/pandas_io.py"
STATS = "pandera/schema_statistics/pandas.py"

A_COL = ["dtype", "checks", "nullable", "unique", "coerce", "required", "regex", "title", "description"]
A_IDX = ["dtype", "checks", "nullable", "unique", "coerce", "name", "title", "description"]
A_SCHEMA = ["dtype", "coerce", "strict", "name", "ordered", "unique", "report_duplicates", "unique_column_names",
            "add_missing_columns", "title", "description"]


def _returned_dicts(f):
    """Dict literals a function returns (directly or via a local name)."""
    out = []
    assigns = {}
    for s in function_stmts(f):
        if isinstance(s, ast.Assign) and len(s.targets) == 1 and isinstance(s.targets[0], ast.Name) and isinstance(s.value, ast.Dict):
            assigns[s.targets[0].id] = s.value
    for s in function_stmts(f):
        if isinstance(s, ast.Return) and s.value is not None:
            if isinstance(s.value, ast.Dict):
                out.append(s.value)
            elif isinstance(s.value, ast.Name) and s.value.id in assigns:
                out.append(assigns[s.value.id])
    return out


def _dict_keys(d: ast.Dict):
    """Literal keys of a dict display, including `**{k: ... for k in [..] ...}`."""
    keys = {}
    for k, v in zip(d.keys, d.values):
        if k is None:
            if isinstance(v, ast.DictComp) and len(v.generators) == 1 and isinstance(v.generators[0].iter, (ast.List, ast.Tuple)):
                for e in v.generators[0].iter.elts:
                    if isinstance(e, ast.Constant):
                        keys[e.value] = v
            elif isinstance(v, ast.Dict):
                keys.update(_dict_keys(v))
        elif isinstance(k, ast.Constant):
            keys[k.value] = v
    return keys


def _nested_value_dict(d: ast.Dict, key):
    """value for `key` if it is (a comprehension producing) a dict literal"""
    for k, v in zip(d.keys, d.values):
        if isinstance(k, ast.Constant) and k.value == key:
            if isinstance(v, ast.DictComp) and isinstance(v.value, ast.Dict):
                return v.value
            if isinstance(v, ast.Dict):
                return v
    return None


def _template_slots(node):
    if not (isinstance(node, ast.Constant) and isinstance(node.value, str)):
        return None
    return [(lit, fld) for lit, fld, _, _ in string.Formatter().parse(node.value)]


def _slot_kw_pairs(tmpl: str):
    """(keyword written before the slot, slot name) pairs of `kw={slot}` lines."""
    pairs = []
    acc = ""
    for lit, fld, _, _ in string.Formatter().parse(tmpl):
        acc += lit
        if fld is None:
            continue
        seg, acc = acc.rstrip().rstrip("{[(").rstrip(), ""
        kwname = None
        if seg.endswith("="):
            seg = seg[:-1].rstrip()
            i = len(seg)
            while i > 0 and (seg[i - 1].isalnum() or seg[i - 1] == "_"):
                i -= 1
            kwname = seg[i:]
        pairs.append((kwname, fld))
    return pairs


def _init_params(ix, qual):
    ci = ix.cls(qual)
    f = ci.lookup("__init__")
    if f is None:
        raise AnalysisError(f"{qual} has no __init__")
    params = {}
    # parameters forwarded through **kwargs come from the parent __init__
    seen = set()
    for k in ci.mro():
        g = k.method("__init__")
        if g is None:
            continue
        for p in g.params[1:]:
            if p not in params:
                params[p] = (g, g.annotations().get(p))
        if g.node.args.kwarg is None:
            break
    return params


def _alias_target(ix, module, name, depth=0):
    if depth > 5:
        return None
    r = ix.resolve_name(module, name)
    if r and r[0] == "global":
        m, n = r[1]
        return m, m.assigns.get(n)
    return None


def _setter_wraps_str(ix, cls_qual, attr) -> bool:
    """The property setter of `attr` stores `[value] if isinstance(value, str) else value`
    (a bare str can therefore never be read back from the attribute)."""
    ci = ix.cls(cls_qual)
    f = ci.lookup_setter(attr)
    if f is None:
        return False
    for n in walk_no_nested(f.node):
        if isinstance(n, ast.IfExp) and isinstance(n.body, (ast.List, ast.Tuple)) and isinstance(n.test, ast.Call) \
                and callee_last(n.test) == "isinstance" and len(n.test.args) == 2 and txt(n.test.args[1]) == "str":
            return True
    return False


def _drop_str(ann):
    """Annotation with top-level `str` members of Optional/Union removed."""
    if isinstance(ann, ast.Subscript) and (dotted(ann.value) or "").split(".")[-1] in ("Optional", "Union"):
        sl = ann.slice
        elts = sl.elts if isinstance(sl, ast.Tuple) else [sl]
        kept = [_drop_str(e) for e in elts if not (isinstance(e, ast.Name) and e.id == "str")]
        kept = [k for k in kept if k is not None]
        if not kept:
            return ast.Constant(None)
        if len(kept) == 1:
            return kept[0] if (dotted(ann.value) or "").endswith("Union") else ast.Subscript(ann.value, kept[0], ast.Load())
        return ast.Subscript(ann.value, ast.Tuple(kept, ast.Load()), ast.Load())
    return ann


def admits_bare_str(ix, module, ann, depth=0) -> bool:
    """Does the declared type admit a value that `str.format` would print as a
    bare (unquoted, non-literal) token?  str / Literal["..."] / Any / dtype
    objects do; bool, int, float, None and lists of str (repr is a valid
    literal) do not."""
    if ann is None:
        return True
    if isinstance(ann, ast.Constant):
        if ann.value is None:
            return False
        if isinstance(ann.value, str):
            try:
                return admits_bare_str(ix, module, ast.parse(ann.value, mode="eval").body, depth)
            except SyntaxError:
                return True
        return False
    if isinstance(ann, ast.Name):
        if ann.id in ("bool", "int", "float", "None"):
            return False
        if ann.id in ("str", "Any", "object"):
            return True
        t = _alias_target(ix, module, ann.id, depth)
        if t and t[1] is not None:
            return admits_bare_str(ix, t[0], t[1], depth + 1)
        return True
    if isinstance(ann, ast.Attribute):
        return True
    if isinstance(ann, ast.Subscript):
        head = (dotted(ann.value) or "").split(".")[-1]
        sl = ann.slice
        elts = sl.elts if isinstance(sl, ast.Tuple) else [sl]
        if head in ("Optional", "Union"):
            return any(admits_bare_str(ix, module, e, depth) for e in elts)
        if head == "Literal":
            return any(isinstance(e, ast.Constant) and isinstance(e.value, str) for e in elts)
        if head in ("List", "list", "Sequence", "Tuple", "tuple", "Dict", "dict", "Set", "set", "Iterable"):
            return False  # repr of a container of literals is a literal
        return True
    if isinstance(ann, ast.BinOp) and isinstance(ann.op, ast.BitOr):
        return admits_bare_str(ix, module, ann.left, depth) or admits_bare_str(ix, module, ann.right, depth)
    return True


QUOTING_CALLS = {"repr", "__repr__", "_get_dtype_string_alias", "_format_checks", "_format_index", "dumps"}


def is_quoted(e) -> bool:
    """The expression renders its value as python source (quoted / repr-ed)."""
    if isinstance(e, ast.Constant):
        return True
    if isinstance(e, ast.IfExp):
        return is_quoted(e.body) and is_quoted(e.orelse)
    if isinstance(e, ast.Call) and callee_last(e) in QUOTING_CALLS:
        return True
    if isinstance(e, ast.JoinedStr):
        parts = e.values
        for i, p in enumerate(parts):
            if isinstance(p, ast.FormattedValue):
                if p.conversion == ord("r"):
                    continue
                # hand-written quote characters around the value are not a faithful rendering: a non-str value (label 0)
                # comes back as a str, and a quote / backslash / newline inside the value breaks or changes the literal
                return False
        return True
    return False


def _source_attr(e):
    """(kind, key): the schema attribute a raw slot value reads:
    properties["k"] / properties.get("k") -> ("stat", k); obj.k -> ("attr", k)."""
    if isinstance(e, ast.Subscript) and isinstance(e.slice, ast.Constant):
        return ("stat", e.slice.value)
    if isinstance(e, ast.Call) and callee_last(e) == "get" and e.args and isinstance(e.args[0], ast.Constant):
        return ("stat", e.args[0].value)
    if isinstance(e, ast.Attribute):
        return ("attr", e.attr)
    return (None, None)


def r7_aggregate_properties(ctx):
    """A property whose getter aggregates over the child components (MultiIndex.coerce = own flag OR any level's flag)
    is not a stored attribute: writing it out as an option of the parent and reading it back sets the parent's own flag,
    which then applies to every child.  Serialisers read stored attributes / per-component values only."""
    ix = ctx.ix
    agg = {}
    for m in ix.modules.values():
        if not m.path.startswith("pandera/api/") or "pyspark" in m.path:
            continue
        for c in m.classes.values():
            for name, lst in c.methods.items():
                for g in lst:
                    if not g.is_property() or any("setter" in txt(d) for d in g.decorators):
                        continue
                    over_children = any(isinstance(n, (ast.comprehension, ast.For)) and any(
                        isinstance(a, ast.Attribute) and txt(a.value) == "self" and a.attr in ("indexes", "columns") for a in ast.walk(n.iter))
                        for n in ast.walk(g.node))
                    if over_children:
                        agg.setdefault(c.name, set()).add(name)
    ctx.stats["aggregate_properties"] = {k: sorted(v) for k, v in agg.items()}
    mi_props = agg.get("MultiIndex", set())
    if not mi_props:
        raise AnalysisError("no aggregate property found on MultiIndex (expected `coerce`)")
    n = 0
    for mp in ("pandera/io/pandas_io.py", "pandera/schema_statistics/pandas.py"):
        m = ix.module(mp)
        funcs = list(m.all_functions)

        def may_be_multiindex(f, x, depth=0):
            t = txt(x)
            if t.endswith(".index"):
                return True
            if isinstance(x, ast.Name) and depth < 3:
                if x.id in f.params:
                    i = f.params.index(x.id)
                    for g in funcs:
                        for c in calls_in(g.node, nested=True):
                            if callee_last(c) == f.name:
                                a = arg(c, i, x.id)
                                if a is not None and may_be_multiindex(g, a, depth + 1):
                                    return True
                for st_ in walk_no_nested(f.node):
                    if isinstance(st_, ast.Assign) and any(isinstance(tt, ast.Name) and tt.id == x.id for tt in st_.targets):
                        if may_be_multiindex(f, st_.value, depth + 1):
                            return True
            return False

        for f in funcs:
            for node in walk_no_nested(f.node):
                recv = prop = None
                if isinstance(node, ast.Attribute) and isinstance(node.ctx, ast.Load) and node.attr in mi_props:
                    recv, prop = node.value, node.attr
                elif isinstance(node, ast.Call) and isinstance(node.func, ast.Name) and node.func.id == "getattr" and len(node.args) >= 2 \
                        and isinstance(node.args[1], ast.Constant) and node.args[1].value in mi_props:
                    recv, prop = node.args[0], node.args[1].value
                if recv is None:
                    continue
                n += 1
                bad = may_be_multiindex(f, recv)
                ctx.ob("R7", f, f"`{txt(node)[:60]}` is read from a single component", not bad,
                       "receiver is a column / index level / container, whose value is stored" if not bad else
                       f"`{txt(recv)}` may be a MultiIndex, whose `{prop}` aggregates over its levels (own flag or any level's): serialising it as "
                       "an option of the MultiIndex makes the re-read schema apply it to every level - exec(to_script(S)).schema != S and verdicts differ",
                       f.loc(node))
    ctx.stats["aggregate_property_reads"] = n


def r8_dtype_alias_lossless(ctx):
    """The dtype of a component is serialised as `str(dtype)` and re-read through the engine, so the string alias of a
    parametrised engine dtype has to determine the native `type` it wraps: a class that overrides `__str__` and computes
    `type` from its fields in `__post_init__` must print `self.type` itself or every field `type` is computed from."""
    from ..util import Expander
    ix = ctx.ix
    n = 0
    for mp in ("pandera/engines/pandas_engine.py", "pandera/engines/polars_engine.py"):
        m = ix.by_path.get(mp)
        if m is None:
            continue
        for c in m.all_classes if hasattr(m, "all_classes") else m.classes.values():
            post = c.methods.get("__post_init__")
            st_ = c.methods.get("__str__")
            if not post or not st_:
                continue
            into_type = set()
            for g in post:
                ex = Expander(g.node)
                for call in calls_in(g.node):
                    if callee_last(call) == "__setattr__" and len(call.args) == 3 and isinstance(call.args[1], ast.Constant) and call.args[1].value == "type":
                        for d in ex.closure(call.args[2]):
                            for a in ast.walk(d):
                                if isinstance(a, ast.Attribute) and txt(a.value) == "self" and a.attr != "type":
                                    into_type.add(a.attr)
                for a in walk_no_nested(g.node):
                    if isinstance(a, ast.Assign) and any(txt(t) == "self.type" for t in a.targets):
                        for d in ex.closure(a.value):
                            for x in ast.walk(d):
                                if isinstance(x, ast.Attribute) and txt(x.value) == "self" and x.attr != "type":
                                    into_type.add(x.attr)
            if not into_type:
                continue
            for g in st_:
                n += 1
                ex = Expander(g.node)
                reads = set()
                delegated = False
                for r in walk_no_nested(g.node):
                    if isinstance(r, ast.Return) and r.value is not None:
                        for d in ex.closure(r.value):
                            for x in ast.walk(d):
                                if isinstance(x, ast.Attribute) and txt(x.value) == "self":
                                    reads.add(x.attr)
                                if isinstance(x, ast.Call) and any(isinstance(a, ast.Name) and a.id == "self" for a in x.args) or \
                                        (isinstance(x, ast.Call) and isinstance(x.func, ast.Name) and x.func.id in ("str", "repr", "format") and
                                         any(isinstance(a, ast.Name) and a.id == "self" for a in x.args)):
                                    delegated = True
                                if isinstance(x, ast.Call) and txt(x.func).startswith("super()"):
                                    delegated = True
                ok = "type" in reads or into_type <= reads or delegated
                ctx.ob("R8", g, f"{c.name}.__str__ determines the native type ({', '.join(sorted(into_type))} -> type)", ok,
                       "prints self.type" if "type" in reads else ("prints every field the type is built from" if ok and not delegated else
                       "delegates to another printer of self" if ok else
                       f"`type` is built from {sorted(into_type)} but the alias reads only {sorted(reads)}: two dtypes that differ in "
                       f"{sorted(into_type - reads)} print the same alias, so from_yaml(to_yaml(S)) resolves a different dtype"), g.loc(g.node))
    ctx.stats["parametrised_aliases"] = n
    if n < 1:
        raise AnalysisError("no engine dtype with __post_init__-computed type and its own __str__ found (expected pandas DateTime)")


def r9_script_imports(ctx):
    """exec(to_script(S)) needs `Timestamp` / `Timedelta` in scope whenever a rendered check value is one.  Check values
    are rendered for columns, index levels and dataframe-level checks, so the text that the import decision searches has
    to contain every rendered piece (the assembled script, or all of the slot values that come from _format_checks /
    _format_index)."""
    from ..util import Expander
    ix = ctx.ix
    io = ix.module(IO)
    f = io.functions.get("to_script")
    if f is None:
        raise AnalysisError("to_script not found")
    ctx.touched(f)
    ex = Expander(f.node)
    fmts = [c for c in calls_in(f.node) if callee_last(c) == "format" and "SCRIPT_TEMPLATE" in txt(c.func)]
    if not fmts:
        raise AnalysisError("to_script: SCRIPT_TEMPLATE.format(...) not found")
    fmt = fmts[0]
    RENDER = ("_format_checks", "_format_index")

    def render_calls(e):
        out = set()
        for d in ex.closure(e):
            for x in ast.walk(d):
                if isinstance(x, ast.Call) and callee_last(x) in RENDER:
                    out.add(id(x))
        return out

    needed = {}
    for k in fmt.keywords:
        rc = render_calls(k.value)
        if rc:
            needed[k.arg] = rc
    if len(needed) < 3:
        raise AnalysisError(f"to_script: expected columns/checks/index slots rendered from check statistics, found {sorted(needed)}")
    hay = []
    for node in ast.walk(f.node):
        if isinstance(node, ast.Compare) and len(node.ops) == 1 and isinstance(node.ops[0], ast.In):
            st_ = node
            while parent(st_) is not None and not isinstance(st_, ast.stmt):
                st_ = parent(st_)
            words = {w for x in ast.walk(st_) if isinstance(x, ast.Constant) and isinstance(x.value, str)
                     for w in ("Timestamp", "Timedelta") if w in x.value}
            if words:
                hay.append((node, words))
    seen_words = set()
    for node, words in hay:
        seen_words |= words
        h = node.comparators[0]
        whole = any(x is fmt for d in ex.closure(h) for x in ast.walk(d))
        have = render_calls(h)
        missing = sorted(k for k, rc in needed.items() if not rc <= have) if not whole else []
        ctx.ob("R9", f, f"import of {'/'.join(sorted(words))} is decided on the whole rendered script", not missing,
               "searches the assembled script" if whole else ("searches every rendered piece" if not missing else
               f"`{txt(node)[:60]}` searches `{txt(h)}`, which does not contain the rendered {missing} slot(s): a datetime/timedelta "
               "check value there is printed as Timestamp(...)/Timedelta(...) without the import and exec(to_script(S)) raises NameError"),
               f.loc(node))
    for w in ("Timestamp", "Timedelta"):
        if w not in seen_words:
            uncond = any(isinstance(x, ast.Constant) and isinstance(x.value, str) and "import" in x.value and w in x.value for x in ast.walk(io.tree))
            ctx.ob("R9", f, f"generated script imports {w} when a check value needs it", uncond,
                   "imported unconditionally" if uncond else f"no import decision for {w} found in to_script", f.loc(f.node))


R11_SELFTEST = """
_INDEX_KEYS = ("dtype", "checks", "name", "unique", "coerce", "title", "description")

def _deserialize_index_stats(stats):
    return {k: v for k, v in stats.items() if k in _INDEX_KEYS}

def _fine_index(stats):
    return {k: v for k, v in stats.items() if k in ("dtype", "checks", "nullable", "unique", "coerce", "name", "title", "description")}
"""


class _Sink:
    def __init__(self):
        self.obs, self.stats = [], {}

    def ob(self, rule, f, construct, ok, detail, loc=None):
        self.obs.append((f.name, ok))


def r11_key_filters(ctx, ix=None, mods=None):
    """A hop that forwards a component's statistics through a key filter (`{k: v for k, v in d.items() if k in ALLOWED}`,
    or the complement with a deny-list) must let every attribute of the property's sets through: an allow-list that lacks
    one of them silently resets that attribute to the constructor default on re-read (the written text is unchanged)."""
    if ix is None:
        from ..index import Index
        sink = _Sink()
        r11_key_filters(sink, Index.from_sources({"pandera/_selftest_io.py": R11_SELFTEST}), ("pandera/_selftest_io.py",))
        if sorted(sink.obs) != [("_deserialize_index_stats", False), ("_fine_index", True)]:
            raise AnalysisError(f"C12.R11 self-test failed: {sink.obs}")
    ix = ix or ctx.ix
    n = 0
    for mp in (mods or (IO, STATS)):
        m = ix.module(mp)
        consts = {}
        for st in m.tree.body:
            if isinstance(st, ast.Assign) and len(st.targets) == 1 and isinstance(st.targets[0], ast.Name) \
                    and isinstance(st.value, (ast.Tuple, ast.List, ast.Set)) and st.value.elts \
                    and all(isinstance(e, ast.Constant) and isinstance(e.value, str) for e in st.value.elts):
                consts[st.targets[0].id] = {e.value for e in st.value.elts}
            elif isinstance(st, ast.Assign) and len(st.targets) == 1 and isinstance(st.targets[0], ast.Name) and isinstance(st.value, ast.Call) \
                    and callee_last(st.value) in ("frozenset", "set", "tuple") and st.value.args and isinstance(st.value.args[0], (ast.Tuple, ast.List, ast.Set)) \
                    and all(isinstance(e, ast.Constant) and isinstance(e.value, str) for e in st.value.args[0].elts):
                consts[st.targets[0].id] = {e.value for e in st.value.args[0].elts}
        for f in m.all_functions:
            for node in ast.walk(f.node):
                if not isinstance(node, (ast.DictComp, ast.ListComp, ast.GeneratorExp, ast.SetComp)):
                    continue
                for g in node.generators:
                    for cond in g.ifs:
                        for cmp_ in ast.walk(cond):
                            if not (isinstance(cmp_, ast.Compare) and len(cmp_.ops) == 1 and isinstance(cmp_.ops[0], (ast.In, ast.NotIn))):
                                continue
                            coll = cmp_.comparators[0]
                            keys = None
                            if isinstance(coll, ast.Name) and coll.id in consts:
                                keys = consts[coll.id]
                            elif isinstance(coll, (ast.Tuple, ast.List, ast.Set)) and coll.elts and all(
                                    isinstance(e, ast.Constant) and isinstance(e.value, str) for e in coll.elts):
                                keys = {e.value for e in coll.elts}
                            if keys is None:
                                continue
                            universe = set(A_COL) | set(A_IDX)
                            if len(keys & universe) < 3 and isinstance(cmp_.ops[0], ast.In):
                                continue   # not an attribute allow-list
                            if isinstance(cmp_.ops[0], ast.NotIn) and not (keys & universe):
                                continue
                            n += 1
                            ctxt = (f.name + " " + (coll.id if isinstance(coll, ast.Name) else "")).lower()
                            need = set(A_IDX) if "index" in ctxt else (set(A_COL) if "column" in ctxt else set(A_COL) & set(A_IDX))
                            lost = sorted(need - keys) if isinstance(cmp_.ops[0], ast.In) else sorted(need & keys)
                            ctx.ob("R11", f, f"key filter `{txt(cmp_)[:50]}` lets every listed attribute through", not lost,
                                   "allow-list covers the attribute set" if not lost else
                                   f"{lost} do(es) not pass the filter: the attribute is dropped on this hop and the re-read component takes the constructor "
                                   "default (e.g. nullable=False), so from_yaml(to_yaml(S)) rejects data S accepts", f.loc(cmp_))
    ctx.stats["attribute_key_filters"] = n


def r12_dtype_entries_are_strings(ctx):
    """YAML and JSON carry a dtype as its string alias.  Every `dtype` entry of a mapping returned by a serialiser is
    therefore rendered with str() (or the alias helper); a raw DataType object reaches the dumper as an unserialisable
    object and to_yaml / to_json raise instead of writing the schema (DataFrameSchema(..., dtype=int))."""
    from ..util import Expander
    io = ctx.ix.module(IO)
    n = 0
    for f in io.all_functions:
        if not (f.name.startswith("serialize") or f.name.startswith("_serialize")):
            continue
        ex = Expander(f.node)
        for d in _returned_dicts(f):
            for k, v in zip(d.keys, d.values):
                if not (isinstance(k, ast.Constant) and k.value == "dtype"):
                    continue
                n += 1
                exprs = ex.closure(v)
                rendered = any(isinstance(x, ast.Call) and ((isinstance(x.func, ast.Name) and x.func.id in ("str", "repr", "_get_dtype_string_alias"))
                                                            or (isinstance(x.func, ast.Attribute) and x.func.attr in ("__str__", "__repr__")))
                               for e in exprs for x in ast.walk(e))
                const_none = isinstance(v, ast.Constant) and v.value is None
                ok = rendered or const_none
                ctx.ob("R12", f, f"{f.name}: the `dtype` entry is written as a string", ok,
                       "rendered with str()" if ok else
                       f"`'dtype': {txt(v)}` hands the DataType object itself to the YAML / JSON dumper: DataFrameSchema({{...}}, dtype=int).to_yaml() raises "
                       "RepresenterError and to_json() TypeError (to_script renders it through the alias helper)", f.loc(v))
    ctx.stats["serialised_dtype_entries"] = n
    if n < 2:
        raise AnalysisError(f"serialisers: expected the component and the dataframe-level dtype entries, found {n}")


def r13_no_hand_written_quotes(ctx):
    """A value is written into the generated script with repr() (`!r`, `.__repr__()`), never between hand-written quote
    characters (`f"'{k}'"`): hand quoting turns non-str values into strings (the integer labels 0, 1 of a default frame come
    back as '0', '1') and breaks on quotes, backslashes and newlines inside the value."""
    io = ctx.ix.module(IO)
    n = 0
    for f in io.all_functions:
        if f.name not in ("to_script", "_format_index", "_format_checks") and not f.name.startswith("_format"):
            continue
        for js in [x for x in ast.walk(f.node) if isinstance(x, ast.JoinedStr)]:
            parts = js.values
            for i, p_ in enumerate(parts):
                if not isinstance(p_, ast.FormattedValue) or p_.conversion == ord("r"):
                    continue
                before = parts[i - 1].value if i > 0 and isinstance(parts[i - 1], ast.Constant) and isinstance(parts[i - 1].value, str) else ""
                after = parts[i + 1].value if i + 1 < len(parts) and isinstance(parts[i + 1], ast.Constant) and isinstance(parts[i + 1].value, str) else ""
                if before and after and before[-1] in "\"'" and after[0] == before[-1]:
                    n += 1
                    ctx.ob("R13", f, f"{f.name}: `{txt(p_.value)[:40]}` is rendered with repr()", False,
                           f"`{txt(js)[:70]}` puts the value between hand-written quotes: a non-str value comes back as a str and a quote / backslash / newline "
                           "inside it breaks or changes the literal, so exec(to_script(S)).schema != S", f.loc(js))
    ctx.ob("R13", io.functions.get("to_script"), "no value is pasted between hand-written quotes in the script generator", n == 0,
           "all rendered through repr()" if n == 0 else f"{n} hand-quoted value(s)")


def r14_lossless_index_source(ctx):
    """The statistics of a MultiIndex are read from its level components (`.indexes`): `MultiIndex.columns` is a
    dictionary of Column objects *rebuilt* from the levels with a few of their attributes (dtype, checks, nullable,
    unique) and renamed to their dict key - reading it loses coerce / title / description and names unnamed levels 0, 1."""
    st = ctx.ix.module(STATS)
    f = st.functions.get("get_index_schema_statistics")
    if f is None:
        raise AnalysisError("get_index_schema_statistics missing")
    ctx.touched(f)
    comp = f.positional[0]
    bad = [x for x in ast.walk(f.node) if (isinstance(x, ast.Attribute) and x.attr == "columns" and txt(x.value) == comp) or
           (isinstance(x, ast.Call) and isinstance(x.func, ast.Name) and x.func.id == "getattr" and len(x.args) >= 2 and txt(x.args[0]) == comp
            and isinstance(x.args[1], ast.Constant) and x.args[1].value == "columns")]
    reads_indexes = any((isinstance(x, ast.Attribute) and x.attr == "indexes") or (isinstance(x, ast.Constant) and x.value == "indexes") for x in ast.walk(f.node))
    ctx.ob("R14", f, "index statistics are read from the level components (`.indexes`), not from MultiIndex.columns", reads_indexes and not bad,
           "levels come from .indexes" if reads_indexes and not bad else
           f"`{txt(bad[0]) if bad else 'no .indexes read'}`: the Column objects of MultiIndex.columns carry only dtype / checks / nullable / unique of their level and are "
           "renamed to the dict key, so level coerce / title / description are lost and unnamed levels come back named 0, 1", f.loc(bad[0]) if bad else None)


def r15_column_keys_as_they_are(ctx):
    """Column labels are arbitrary hashables; YAML can carry ints, floats, bools and dates as mapping keys.  The
    serialised `columns` mapping is keyed by the label itself - `str(label)` makes from_yaml(to_yaml(S)) look for a
    column '0' in a frame whose label is 0."""
    io = ctx.ix.module(IO)
    f = io.functions.get("serialize_schema")
    from ..util import Expander
    ex = Expander(f.node)
    n = 0
    for _once in (1,):
        for _once2 in (1,):
            if True:
                for e in [f.node]:
                    for dc in [x for x in ast.walk(e) if isinstance(x, ast.DictComp)
                               and any(isinstance(y, ast.Constant) and y.value == "columns" for g in x.generators for y in ast.walk(g.iter))]:
                        n += 1
                        tg = {x.id for g in dc.generators for x in ast.walk(g.target) if isinstance(x, ast.Name)}
                        ok = isinstance(dc.key, ast.Name) and dc.key.id in tg
                        ctx.ob("R15", f, "serialize_schema keys the columns mapping by the column label itself", ok,
                               "label used as key" if ok else
                               f"key `{txt(dc.key)}` is a rendering of the label: DataFrameSchema({{0: Column(int)}}) comes back from YAML with the key '0' and rejects the frame "
                               "it accepted", f.loc(dc))
    if n < 1:
        raise AnalysisError("serialize_schema: columns mapping comprehension not found")


# options of a MultiIndex that the property lists as serialisable attributes (coerce, strict, ordered, names, joint uniqueness)
A_MULTIINDEX = ("coerce", "strict", "ordered", "name", "unique")


def r16_multiindex_rebuilt_with_its_options(ctx):
    """Equality of the re-read schema includes the options of a MultiIndex itself (strict / coerce / ordered / name /
    joint uniqueness of the levels), which the property lists as serialisable.  The reader and the script template are
    the only places that construct a MultiIndex; each has to supply every such constructor option (a slot that is
    missing re-creates the index with the default and the verdicts flip: a 3-level index fails strict=True before the
    round trip and passes after it)."""
    ix = ctx.ix
    params = _init_params(ix, "pandera/api/pandas/components.py::MultiIndex")
    for a in A_MULTIINDEX:
        if a not in params:
            raise AnalysisError(f"MultiIndex.__init__ has no parameter {a}")
    io = ix.module(IO)
    n = 0
    for f in io.all_functions:
        for c in calls_in(f.node):
            if callee_last(c) == "MultiIndex" and isinstance(c.func, ast.Name):
                n += 1
                ctx.touched(f)
                if any(k.arg is None for k in c.keywords):
                    supplied = set(A_MULTIINDEX)
                else:
                    supplied = {k.arg for k in c.keywords} | set(list(params)[:len(c.args)])
                missing = [a for a in A_MULTIINDEX if a not in supplied]
                ctx.ob("R16", f, f"{f.short}: the reader re-builds a MultiIndex with its own options", not missing,
                       "every serialisable option supplied" if not missing else
                       f"`{txt(c)[:50]}` supplies none of {missing}: from_yaml(to_yaml(S)) / from_json(to_json(S)) re-create MultiIndex(..., strict=True / coerce=True / "
                       "ordered=False / name=...) with the defaults, S2 != S and verdicts flip", f.loc(c))
    tmpl = io.assigns.get("MULTIINDEX_TEMPLATE")
    if isinstance(tmpl, ast.Constant) and isinstance(tmpl.value, str):
        n += 1
        slots = {fld for _, fld, _, _ in string.Formatter().parse(tmpl.value) if fld}
        missing = [a for a in A_MULTIINDEX if a not in slots]
        ctx.ob("R16", f"{io.path}", "MULTIINDEX_TEMPLATE has a slot for each option of the MultiIndex", not missing,
               "every option has a slot" if not missing else
               f"no slot for {missing}: exec(to_script(S)).schema has the default options", f"{io.path}:{tmpl.lineno}")
    if n < 2:
        raise AnalysisError(f"MultiIndex construction sites in the reader / script template found: {n}")


def r17_stat_converter_covers_every_datetime_dtype(ctx):
    """The statistics producer decides with `dtypes.is_datetime(dtype)` that a column's bounds are Timestamps - for
    time-zone-aware columns too.  The stat converters of the writer and the reader turn Timestamps into text and back
    only in their datetime branch; if that branch is entered by *recognising the naive DateTime dtype*
    (`Engine.dtype(dtypes.DateTime).check(dtype)` is False for datetime64[ns, UTC]) the tz-aware bounds reach the YAML /
    JSON dumper as Timestamp objects and to_yaml / to_json raise.  The branch test has to be as wide as the producer's
    classification (is_datetime)."""
    io = ctx.ix.module(IO)
    st = ctx.ix.module(STATS)
    producer_wide = any(isinstance(c, ast.Call) and callee_last(c) == "is_datetime" for f in st.all_functions for c in ast.walk(f.node))
    seen_sites = set()
    n = 0
    for f in io.all_functions:
        # role: the conversion of a Timestamp statistic - the statement that renders it (`.strftime(`) or parses it back
        # (`to_datetime(`); the branch test that lets a statistic in is the nearest enclosing test that inspects the dtype
        for c in calls_in(f.node):
            if callee_last(c) not in ("strftime", "to_datetime"):
                continue
            child, p_ = c, getattr(c, "_parent", None)
            decided = None
            while p_ is not None and p_ is not f.node and decided is None:
                if isinstance(p_, (ast.If, ast.IfExp)) and child is not p_.test:
                    calls = [x for x in ast.walk(p_.test) if isinstance(x, ast.Call)]
                    narrow = [x for x in calls if callee_last(x) == "check" and isinstance(x.func, ast.Attribute)
                              and any(isinstance(a, ast.Attribute) and a.attr == "DateTime" for a in ast.walk(x.func.value))]
                    wide = [x for x in calls if callee_last(x) == "is_datetime"]
                    if narrow or wide:
                        decided = (narrow, wide)
                child, p_ = p_, getattr(p_, "_parent", None)
            if decided is None:
                continue
            narrow, wide = decided
            key = (f.qual, "w" if callee_last(c) == "strftime" else "r")
            if key in seen_sites:
                continue
            seen_sites.add(key)
            n += 1
            ctx.touched(f)
            ok = bool(wide) or not producer_wide
            role = "writer" if callee_last(c) == "strftime" else "reader"
            ctx.ob("R17", f, f"{role}: the datetime branch of the stat converter is entered for every dtype the producer classifies as datetime", ok,
                   "is_datetime" if ok else
                   f"`{txt(narrow[0])[:70]}` recognises the time-zone-naive dtype only, while the statistics use is_datetime: for a datetime64[ns, UTC] column the Timestamp "
                   "bounds are written unconverted - infer_schema(D).to_yaml() raises RepresenterError, to_json() TypeError", f.loc(narrow[0] if narrow else wide[0]))
    if n < 2:
        raise AnalysisError(f"stat converters with a datetime branch found: {n}")


def _own_nodes(fn):
    """nodes of a function body without those of nested functions / classes"""
    todo = list(fn.body)
    while todo:
        x = todo.pop()
        yield x
        for c in ast.iter_child_nodes(x):
            if not isinstance(c, (ast.FunctionDef, ast.AsyncFunctionDef, ast.ClassDef, ast.Lambda)):
                todo.append(c)


def r18_writer_converter_keeps_the_value(ctx):
    """The writer's stat converter may change the *representation* of a statistic (a Timestamp as text, a Timedelta as its
    nanoseconds) but not its value: whatever it returns is the statistic itself or something obtained from the statistic
    alone (`stat.strftime(...)`, `getattr(stat, "value", stat)`).  A return that computes another value - an infinite bound
    written as the largest finite float - makes the re-read schema a different schema (ge(-1.797e308) rejects -inf)."""
    io = ctx.ix.module(IO)
    n = 0
    # decided on the source as written (the normaliser inlines the small converter into its caller, where "the statistic" is
    # no longer a parameter): every function, at any nesting depth, that renders its own parameter with strftime
    raw = ast.parse(io.source)
    fns = [x for x in ast.walk(raw) if isinstance(x, (ast.FunctionDef, ast.AsyncFunctionDef))]
    for fn in fns:
        own = [x for x in _own_nodes(fn)]
        params = {a.arg for a in fn.args.posonlyargs + fn.args.args + fn.args.kwonlyargs}
        recv = [c.func.value.id for c in own if isinstance(c, ast.Call) and isinstance(c.func, ast.Attribute) and c.func.attr == "strftime"
                and isinstance(c.func.value, ast.Name) and c.func.value.id in params]
        if not recv:
            continue
        stat = recv[0]
        f = next((g for g in io.all_functions if g.name == fn.name), io.all_functions[0])
        ctx.touched(f)
        for r in own:
            if not isinstance(r, ast.Return) or r.value is None:
                continue
            n += 1
            v = r.value

            def rooted(e, depth=0):
                if isinstance(e, ast.Name):
                    if e.id == stat:
                        return True
                    # a local that holds the value to return (`ret = stat.strftime(...); return ret`)
                    defs_ = [a.value for a in own if isinstance(a, ast.Assign) and any(isinstance(t, ast.Name) and t.id == e.id for t in a.targets)]
                    return bool(defs_) and depth < 4 and all(rooted(d, depth + 1) for d in defs_)
                if isinstance(e, ast.IfExp):
                    return rooted(e.body, depth) and rooted(e.orelse, depth)
                if isinstance(e, ast.Attribute):
                    return rooted(e.value, depth)
                if isinstance(e, ast.Call):
                    if isinstance(e.func, ast.Attribute):
                        return rooted(e.func.value, depth)
                    if isinstance(e.func, ast.Name) and e.func.id in ("getattr", "str", "int", "float") and e.args:
                        return rooted(e.args[0], depth)
                if isinstance(e, (ast.List, ast.Tuple, ast.ListComp)):
                    return True   # element-wise conversions are judged where the element converter returns
                return False
            ok = rooted(v)
            ctx.ob("R18", f, f"writer's stat converter returns the statistic or a rendering of it: `{txt(r)[:50]}`", ok,
                   "derived from the statistic alone" if ok else
                   f"`{txt(r)[:90]}` writes a value that is not the statistic: from_yaml(to_yaml(S)) has another bound than S (an inferred -inf / inf bound "
                   "becomes +-1.797e308 and the re-read schema rejects the data it was inferred from)", f"{io.path}:{r.lineno}")
    if n < 3:
        raise AnalysisError(f"writer's stat converter: returns found: {n}")


def r20_stat_converters_reach_the_elements(ctx):
    """Some built-in checks keep a *collection* as their statistic (`isin` / `notin`: the allowed values).  The per-statistic
    converters of the writer and the reader turn a Timestamp into text (and back) only when they are handed the Timestamp
    itself; a list of Timestamps passed through untouched reaches the YAML / JSON dumper unconverted and to_yaml / to_json
    raise.  Each converter therefore has a branch for collections that converts the elements (decided on the source as
    written: the function that renders its own parameter with strftime / parses it with to_datetime)."""
    io = ctx.ix.module(IO)
    raw = ast.parse(io.source)
    n = 0
    for fn in [x for x in ast.walk(raw) if isinstance(x, (ast.FunctionDef, ast.AsyncFunctionDef))]:
        own = list(_own_nodes(fn))
        params = [a.arg for a in fn.args.posonlyargs + fn.args.args]
        conv = [c for c in own if isinstance(c, ast.Call) and isinstance(c.func, ast.Attribute) and c.func.attr in ("strftime", "to_datetime")
                and ((c.func.attr == "strftime" and isinstance(c.func.value, ast.Name) and c.func.value.id in params)
                     or (c.func.attr == "to_datetime" and c.args and isinstance(c.args[0], ast.Name) and c.args[0].id in params))]
        if not conv:
            continue
        stat = conv[0].func.value.id if conv[0].func.attr == "strftime" else conv[0].args[0].id
        n += 1
        # a branch that tests the statistic for being a collection and converts its elements (recursive call / comprehension over it)
        elementwise = False
        for x in own:
            if isinstance(x, (ast.If, ast.IfExp)):
                t = x.test
                is_coll = any(isinstance(c, ast.Call) and isinstance(c.func, ast.Name) and c.func.id == "isinstance" and c.args and txt(c.args[0]) == stat
                              and any(k in txt(c.args[1]) for k in ("list", "tuple", "set", "Iterable", "Sequence", "Collection")) for c in ast.walk(t))
                if not is_coll:
                    continue
                body = x.body if isinstance(x, ast.If) else [x.body]
                for b in body:
                    for y in ast.walk(b):
                        if isinstance(y, (ast.ListComp, ast.GeneratorExp, ast.For)) and any(isinstance(z, ast.Name) and z.id == stat for z in ast.walk(
                                y.generators[0].iter if not isinstance(y, ast.For) else y.iter)):
                            elementwise = True
        f = next((g for g in io.all_functions if g.name == fn.name), io.all_functions[0])
        ctx.touched(f)
        role = "writer" if conv[0].func.attr == "strftime" else "reader"
        ctx.ob("R20", f, f"{role}: the stat converter converts the elements of a collection-valued statistic", elementwise,
               "collection branch converts element-wise" if elementwise else
               f"`{fn.name}` converts `{stat}` only when it is the datetime value itself: Check.isin([pd.Timestamp(...)]) on a datetime column hands the dumper a list of Timestamps - "
               "to_yaml raises RepresenterError, to_json TypeError", f"{io.path}:{fn.lineno}")
    if n < 2:
        raise AnalysisError(f"stat converters found: {n}")


def run(ctx):
    from ..defassign import check_modules
    check_modules(ctx, "R10", ('pandera/io/pandas_io.py', 'pandera/schema_statistics/pandas.py'), "escapes serialisation: the round trip is not even attempted")
    r7_aggregate_properties(ctx)
    r8_dtype_alias_lossless(ctx)
    r9_script_imports(ctx)
    r11_key_filters(ctx)
    r12_dtype_entries_are_strings(ctx)
    r13_no_hand_written_quotes(ctx)
    r14_lossless_index_source(ctx)
    r15_column_keys_as_they_are(ctx)
    r16_multiindex_rebuilt_with_its_options(ctx)
    r17_stat_converter_covers_every_datetime_dtype(ctx)
    r18_writer_converter_keeps_the_value(ctx)
    r20_stat_converters_reach_the_elements(ctx)
    ix = ctx.ix
    io = ix.module(IO)
    st = ix.module(STATS)
    col_params = _init_params(ix, "pandera/api/pandas/components.py::Column")
    idx_params = _init_params(ix, "pandera/api/pandas/components.py::Index")
    sch_params = _init_params(ix, "pandera/api/pandas/container.py::DataFrameSchema")
    for a in A_COL:
        if a not in col_params:
            raise AnalysisError(f"Column.__init__ has no parameter {a}")
    for a in A_IDX:
        if a not in idx_params:
            raise AnalysisError(f"Index.__init__ has no parameter {a}")
    for a in A_SCHEMA:
        if a not in sch_params:
            raise AnalysisError(f"DataFrameSchema.__init__ has no parameter {a}")

    def fn(mod, name):
        f = mod.functions.get(name)
        if f is None:
            raise AnalysisError(f"{mod.path}: function {name} not found")
        ctx.touched(f)
        return f

    # ---- R1 hop 1: statistics dictionaries --------------------------------
    f = fn(st, "get_dataframe_schema_statistics")
    ds = _returned_dicts(f)
    if not ds:
        raise AnalysisError("get_dataframe_schema_statistics returns no dict literal")
    coldict = _nested_value_dict(ds[0], "columns")
    if coldict is None:
        raise AnalysisError("column statistics dict literal not found")
    ck = _dict_keys(coldict)
    for a in A_COL:
        v = ck.get(a)
        ok = v is not None and (a == "checks" or (isinstance(v, ast.Attribute) and v.attr == a))
        ctx.ob("R1", f, f"column attribute {a} -> statistics", ok,
               "present and read from the same attribute" if ok else
               (f"statistics key {a!r} missing: the attribute is dropped by to_yaml/to_json/to_script" if v is None
                else f"statistics key {a!r} reads `{txt(v)}`"))
    g = fn(st, "_get_series_base_schema_statistics")
    ds = _returned_dicts(g)
    if not ds:
        raise AnalysisError("_get_series_base_schema_statistics returns no dict literal")
    ik = _dict_keys(ds[0])
    for a in A_IDX:
        v = ik.get(a)
        ok = v is not None and (a == "checks" or (isinstance(v, ast.Attribute) and v.attr == a))
        ctx.ob("R1", g, f"index attribute {a} -> statistics", ok,
               "present and read from the same attribute" if ok else
               (f"statistics key {a!r} missing" if v is None else f"statistics key {a!r} reads `{txt(v)}`"))
    # ---- R1 hop 2/3: (de)serialize component stats --------------------------
    for name in ("_serialize_component_stats", "_deserialize_component_stats"):
        h = fn(io, name)
        ds = _returned_dicts(h)
        if not ds:
            raise AnalysisError(f"{name} returns no dict literal")
        keys = _dict_keys(ds[0])
        for a in sorted(set(A_COL) | set(A_IDX)):
            ctx.ob("R1", h, f"component attribute {a} -> {name}", a in keys,
                   "key present" if a in keys else f"key {a!r} not written by {name}: attribute lost in YAML/JSON")
    # deserialized stats feed the constructors by ** : every key must be a constructor parameter
    h = io.functions["_deserialize_component_stats"]
    keys = _dict_keys(_returned_dicts(h)[0])
    for k in sorted(keys):
        okc = k in col_params
        oki = k in idx_params or k in ("required", "regex")
        ctx.ob("R1", h, f"deserialised key {k} is a Column parameter", okc,
               "accepted by Column(**stats)" if okc else "Column(**stats) would raise TypeError")
    # ---- R1/R2 schema level -------------------------------------------------
    ser = fn(io, "serialize_schema")
    des = fn(io, "deserialize_schema")
    sd = _returned_dicts(ser)
    if not sd:
        raise AnalysisError("serialize_schema returns no dict literal")
    skeys = _dict_keys(sd[0])
    for a in A_SCHEMA:
        v = skeys.get(a)
        # the value written under the key is (a rendering of) the attribute of the same name and of nothing else
        attrs = {x.attr for x in ast.walk(v) if isinstance(x, ast.Attribute) and isinstance(x.value, ast.Name)
                 and x.value.id == ser.positional[0]} if v is not None else set()
        ok = attrs == {a}
        ctx.ob("R1", ser, f"schema attribute {a} -> serialize_schema", ok,
               "written from the same attribute" if ok else
               (f"key {a!r} missing" if v is None else f"key {a!r} reads `{txt(v)}`"))
    ctor = [c for c in calls_in(des.node) if callee_last(c) == "DataFrameSchema"]
    if len(ctor) != 1:
        raise AnalysisError("deserialize_schema: DataFrameSchema(...) call not found")
    ctor = ctor[0]
    read_keys = {}
    for c in calls_in(des.node):
        if callee_last(c) == "get" and c.args and isinstance(c.args[0], ast.Constant) and isinstance(c.func, ast.Attribute) \
                and isinstance(c.func.value, ast.Name) and c.func.value.id == des.positional[0]:
            read_keys[c.args[0].value] = c
    for n in walk_no_nested(des.node):
        if isinstance(n, ast.Subscript) and isinstance(n.value, ast.Name) and n.value.id == des.positional[0] \
                and isinstance(n.slice, ast.Constant):
            read_keys[n.slice.value] = n
    for a in A_SCHEMA:
        v = kw(ctor, a)
        ok = v is not None and isinstance(v, ast.Call) and callee_last(v) == "get" and v.args \
            and isinstance(v.args[0], ast.Constant) and v.args[0].value == a
        ctx.ob("R1", des, f"schema attribute {a} <- deserialize_schema", ok,
               f"DataFrameSchema({a}=serialized.get({a!r}))" if ok else
               (f"DataFrameSchema(...) is not given {a}" if v is None else f"{a}={txt(v)} does not read key {a!r}"))
        if ok and len(v.args) > 1:
            # default used when the key is absent must be the constructor default
            d = sch_params[a][0].defaults().get(a)
            same = d is not None and txt(d) == txt(v.args[1])
            ctx.ob("R1", des, f"schema attribute {a}: default for absent key", same,
                   "equals the constructor default" if same else f"reader default {txt(v.args[1])} != constructor default {txt(d) if d is not None else None}")
    meta = {"schema_type", "version"}
    for k in sorted(set(skeys) - meta):
        ctx.ob("R2", des, f"key {k!r} written by serialize_schema is read back", k in read_keys,
               "read by deserialize_schema" if k in read_keys else "written but never read: lost on from_yaml/from_json")
    for k in sorted(set(read_keys)):
        ctx.ob("R2", ser, f"key {k!r} read by deserialize_schema is written", k in skeys,
               "written by serialize_schema" if k in skeys else "read but never written: always takes the default")
    # ---- templates -----------------------------------------------------------
    templates = {"COLUMN_TEMPLATE": ("Column", col_params, [a for a in A_COL]),
                 "INDEX_TEMPLATE": ("Index", idx_params, A_IDX),
                 "SCRIPT_TEMPLATE": ("DataFrameSchema", sch_params, A_SCHEMA + ["columns", "checks", "index"])}
    fmt_calls = {}
    for f2 in io.all_functions:
        for c in calls_in(f2.node):
            if isinstance(c.func, ast.Attribute) and c.func.attr == "format" and isinstance(c.func.value, ast.Name) \
                    and c.func.value.id in templates:
                fmt_calls.setdefault(c.func.value.id, []).append((f2, c))
    for tname, (ctor_name, params, attrs) in templates.items():
        node = io.assigns.get(tname)
        if node is None or _template_slots(node) is None:
            raise AnalysisError(f"{tname} literal not found")
        pairs = _slot_kw_pairs(node.value)
        slots = [s for _, s in pairs]
        where = f"{IO}::{tname}"
        loc = f"{IO}:{node.lineno}"
        for a in attrs:
            ctx.ob("R1", where, f"{ctor_name} attribute {a} has a slot in {tname}", a in slots,
                   "slot present" if a in slots else f"{tname} has no {{{a}}} slot: to_script drops the attribute", loc)
        for kwname, slot in pairs:
            ok = kwname == slot and slot in params
            ctx.ob("R1", where, f"{tname}: `{kwname}={{{slot}}}`", ok,
                   "keyword == slot == constructor parameter" if ok else
                   f"slot {{{slot}}} is written into keyword {kwname!r} of {ctor_name}(...)", loc)
        if tname not in fmt_calls:
            raise AnalysisError(f"no .format call for {tname}")
        for f2, c in fmt_calls[tname]:
            ctx.touched(f2)
            given = {k.arg for k in c.keywords if k.arg}
            ok = given == set(slots)
            ctx.ob("R1", f2, f"{tname}.format keyword set == slot set", ok,
                   "equal" if ok else f"missing {sorted(set(slots) - given)}, extra {sorted(given - set(slots))}",
                   f2.loc(c))
            for k in c.keywords:
                if k.arg is None:
                    continue
                if k.arg == "checks":
                    v = k.value
                    via = any(isinstance(n, ast.Call) and callee_last(n) == "_format_checks" for n in ast.walk(v))
                    if not via and isinstance(v, ast.Name):
                        # follow a local assignment
                        for s in function_stmts(f2):
                            if isinstance(s, ast.Assign) and any(isinstance(t, ast.Name) and t.id == v.id for t in s.targets):
                                via = via or any(isinstance(n, ast.Call) and callee_last(n) == "_format_checks" for n in ast.walk(s.value))
                    ctx.ob("R4", f2, f"{tname}.format(checks=...)", via,
                           "rendered by _format_checks" if via else
                           f"checks slot receives `{txt(v)}`: a raw statistics dict, not `[Check.x(...), ...]`", f2.loc(c))
                    continue
                if k.arg in ("columns", "index", "indexes"):
                    continue
                _r3_slot(ctx, ix, io, f2, c, tname, k, params)
    # ---- R5 check statistics envelope and keying ------------------------------
    pc = fn(st, "parse_checks")
    ser_cs = fn(io, "_serialize_check_stats")
    des_cs = fn(io, "_deserialize_check_stats")
    fc = fn(io, "_format_checks")
    special_w = {n.value for n in ast.walk(ser_cs.node) if isinstance(n, ast.Constant) and n.value in ("value", "options")}
    special_r = {n.value for n in ast.walk(des_cs.node) if isinstance(n, ast.Constant) and n.value in ("value", "options")}
    ctx.ob("R5", des_cs, "envelope keys {'value','options'} written == read", special_w == special_r == {"value", "options"},
           f"writer {sorted(special_w)}, reader {sorted(special_r)}")
    opt_keys = None
    from ..util import same_module_helpers
    check_init0 = ix.cls("pandera/api/checks.py::Check").lookup("__init__")
    for g_ in same_module_helpers(ix, pc):
        for d_ in [n for n in walk_no_nested(g_.node) if isinstance(n, ast.Dict)]:
            keys_ = _dict_keys(d_)
            # the options dict: every key is a Check constructor option read from the attribute of the same name
            if keys_ and all(k in check_init0.params and isinstance(v, ast.Attribute) and v.attr == k for k, v in keys_.items()) \
                    and {"ignore_na", "raise_warning", "n_failure_cases"} & set(keys_):
                opt_keys = keys_
                break
        if opt_keys is not None:
            break
    if opt_keys is None:
        # loop form: `for option in ("raise_warning", ...): value = getattr(check, option); ...[option] = value`
        for g_ in same_module_helpers(ix, pc):
            for lp in [n for n in walk_no_nested(g_.node) if isinstance(n, ast.For) and isinstance(n.target, ast.Name)]:
                it = lp.iter
                if isinstance(it, ast.Name):
                    it = g_.module.assigns.get(it.id, it)
                if isinstance(it, (ast.Tuple, ast.List)) and it.elts and all(isinstance(e, ast.Constant) and isinstance(e.value, str) for e in it.elts):
                    gets = [c for c in ast.walk(lp) if isinstance(c, ast.Call) and isinstance(c.func, ast.Name) and c.func.id == "getattr" and len(c.args) >= 2
                            and isinstance(c.args[1], ast.Name) and c.args[1].id == lp.target.id]
                    names_ = [e.value for e in it.elts]
                    if gets and {"ignore_na", "raise_warning", "n_failure_cases"} & set(names_):
                        opt_keys = {k: ast.Attribute(value=gets[0].args[0], attr=k, ctx=ast.Load()) for k in names_}
    if opt_keys is None:
        raise AnalysisError("parse_checks: check options dict not found")
    # whatever is recorded for one check is computed from that check alone: a mutable local that the loop over the checks
    # writes *and* reads, but never re-creates, carries the values of the previous check into the next one
    for lp in [n for n in walk_no_nested(pc.node) if isinstance(n, ast.For) and isinstance(n.iter, ast.Name) and n.iter.id in pc.params]:
        returned = {x.id for r in walk_no_nested(pc.node) if isinstance(r, ast.Return) and r.value is not None for x in ast.walk(r.value) if isinstance(x, ast.Name)}
        body_nodes = [x for b in lp.body for x in ast.walk(b)]
        assigned_in = {t.id for x in body_nodes if isinstance(x, ast.Assign) for t in x.targets if isinstance(t, ast.Name)}
        written = {}
        for x in body_nodes:
            if isinstance(x, ast.Assign):
                for t in x.targets:
                    if isinstance(t, ast.Subscript) and isinstance(t.value, ast.Name):
                        written.setdefault(t.value.id, x)
        for d_, site in sorted(written.items()):
            if d_ in assigned_in or d_ in returned:
                continue
            reads = [x for x in body_nodes if isinstance(x, ast.Name) and x.id == d_ and isinstance(x.ctx, ast.Load)
                     and not (isinstance(getattr(x, "_parent", None), ast.Subscript) and isinstance(x._parent.ctx, ast.Store))]
            stale = bool(reads)
            ctx.ob("R5", pc, f"parse_checks: `{d_}` written per check is not read back across checks", not stale,
                   "write-only inside the loop" if not stale else
                   f"`{d_}` is created once before the loop over the checks, filled conditionally and read for every check: an option set on an earlier check "
                   "(n_failure_cases=1) is written for every later check of the component as well, and the re-read schema reports differently", pc.loc(site))
    check_init = ix.cls("pandera/api/checks.py::Check").lookup("__init__")
    for k, v in sorted(opt_keys.items()):
        ok = k in check_init.params and isinstance(v, ast.Attribute) and v.attr == k
        ctx.ob("R5", pc, f"check option {k} serialised from check.{k}", ok,
               "Check parameter, read from the same attribute" if ok else f"option {k!r} reads `{txt(v)}`")
    for name, f3 in (("_format_checks", fc), ("_deserialize_check_stats", des_cs), ("parse_check_statistics", fn(st, "parse_check_statistics"))):
        reads_opts = any(isinstance(n, ast.Constant) and n.value == "options" for g3 in same_module_helpers(ix, f3) for n in ast.walk(g3.node))
        ctx.ob("R5", f3, f"{name} consumes the 'options' entry", reads_opts,
               "handled" if reads_opts else "options written by parse_checks are passed to the Check constructor as a statistic")
    # every option that the writer emits is restored by each reader (generic loop over the mapping, or an explicit list)
    from ..util import Expander
    for name, f3 in (("_deserialize_check_stats", des_cs), ("parse_check_statistics", fn(st, "parse_check_statistics"))):
        restored = None
        for g3, loop in [(g3, n) for g3 in same_module_helpers(ix, f3) for n in walk_no_nested(g3.node) if isinstance(n, ast.For)]:
            ex3 = Expander(g3.node)
            sets = [c for c in calls_in(loop) if callee_last(c) == "setattr" and len(c.args) == 3]
            if not sets:
                continue
            it = loop.iter
            if isinstance(it, ast.Call) and callee_last(it) == "items":
                restored = "ALL"
            else:
                lit = ex3.expand(it)
                if isinstance(lit, (ast.Tuple, ast.List, ast.Set)) and all(isinstance(e, ast.Constant) for e in lit.elts):
                    restored = {e.value for e in lit.elts}
                else:
                    mod_assign = f3.module.assigns.get(it.id) if isinstance(it, ast.Name) else None
                    if isinstance(mod_assign, (ast.Tuple, ast.List, ast.Set)) and all(isinstance(e, ast.Constant) for e in mod_assign.elts):
                        restored = {e.value for e in mod_assign.elts}
        if restored is None:
            ctx.ob("R5", f3, f"{name} restores the check options", False, "no loop applying the options with setattr")
        else:
            missing = [] if restored == "ALL" else sorted(set(opt_keys) - restored)
            ctx.ob("R5", f3, f"{name} restores every option the writer emits", not missing,
                   "all written options are applied" if not missing else
                   f"parse_checks writes {sorted(opt_keys)} but the reader only restores {sorted(restored)}: {missing} silently revert to their "
                   "defaults on a YAML/JSON round trip")
    # keying: statistics keyed by check name only
    keyed = []
    for n in walk_no_nested(pc.node):
        if isinstance(n, ast.Assign):
            for t in n.targets:
                if isinstance(t, ast.Subscript) and isinstance(t.slice, ast.Attribute) and t.slice.attr == "name":
                    keyed.append(t)
    guarded = any(isinstance(n, ast.Compare) and any(isinstance(o, (ast.In, ast.NotIn)) for o in n.ops)
                  and isinstance(n.left, ast.Attribute) and n.left.attr == "name" for n in walk_no_nested(pc.node))
    if keyed:
        ctx.ob("R5", pc, "check statistics keyed by check.name", guarded,
               "collision guarded" if guarded else
               "two checks with the same name (e.g. two Check.gt) overwrite each other: only the last survives "
               "serialisation", pc.loc(keyed[0]))
    # option values: only None means "unset"; filtering by truthiness drops legal values (False, 0)
    for f3 in (pc, fc, ser_cs, des_cs, fn(st, "parse_check_statistics")):
        for n in walk_no_nested(f3.node):
            if isinstance(n, ast.DictComp) and "option" in txt(n.generators[0].iter):
                tv = n.generators[0].target
                vname = tv.elts[1].id if isinstance(tv, ast.Tuple) and len(tv.elts) == 2 and isinstance(tv.elts[1], ast.Name) else None
                for cond in n.generators[0].ifs:
                    truthy = isinstance(cond, ast.Name) and cond.id == vname or (
                        isinstance(cond, ast.UnaryOp) and isinstance(cond.operand, ast.Name) and cond.operand.id == vname)
                    ctx.ob("R5", f3, f"option filter `{txt(n)[:60]}`", not truthy,
                           "keeps every option that is set (only None is dropped)" if not truthy else
                           f"options are filtered by truthiness (`if {txt(cond)}`): ignore_na=False / n_failure_cases=0 are dropped and "
                           "come back as their defaults", f3.loc(n))
    # ---- R6 every statistic passes through the dtype-aware converter, and what is converted is what is used
    for f3, label in ((ser_cs, "writer"), (des_cs, "reader")):
        # the dtype-aware converter: the function (nested in f3 or at module level) called from f3 whose body decides
        # on is_datetime / is_timedelta of the dtype - found by what it does, not by its name
        conv_names = set()
        for c in calls_in(f3.node, nested=True):
            if isinstance(c.func, ast.Name):
                g = f3.nested.get(c.func.id) or f3.module.functions.get(c.func.id)
                if g is not None and any((isinstance(x, ast.Attribute) and x.attr in ("DateTime", "Timedelta", "is_datetime", "is_timedelta"))
                                         or (isinstance(x, ast.Name) and x.id in ("is_datetime", "is_timedelta")) for x in ast.walk(g.node)):
                    conv_names.add(c.func.id)
        def _kind_decision(e):
            return any((isinstance(x, ast.Attribute) and x.attr in ("DateTime", "Timedelta", "is_datetime", "is_timedelta"))
                       or (isinstance(x, ast.Name) and x.id in ("is_datetime", "is_timedelta")) for x in ast.walk(e))
        if not conv_names and not _kind_decision(f3.node):
            raise AnalysisError(f"{f3.short}: dtype-aware statistic converter not found")
        # a converted value: a call of the converter, or (after the normaliser expanded an expression-like converter at its
        # call site) an expression that decides on the dtype kind
        def is_conv(c):
            if not isinstance(c, ast.AST) or isinstance(c, ast.Name):
                return False
            if isinstance(c, (ast.DictComp, ast.ListComp, ast.GeneratorExp)):
                vals = [c.value] if isinstance(c, ast.DictComp) else [c.elt]
                return all(is_conv(v) for v in vals)
            if isinstance(c, ast.Call) and isinstance(c.func, ast.Name) and c.func.id in conv_names:
                return True
            return _kind_decision(c)
        # locals filled from the converter (item stores in a loop, or a comprehension)
        filled = {}
        for s2 in function_stmts(f3):
            if isinstance(s2, ast.Assign) and isinstance(s2.targets[0], ast.Subscript) and isinstance(s2.targets[0].value, ast.Name) \
                    and (any(is_conv(c) for c in calls_in(s2)) or is_conv(s2.value)):
                filled[s2.targets[0].value.id] = s2
            elif isinstance(s2, ast.Assign) and isinstance(s2.targets[0], ast.Name) and isinstance(s2.value, (ast.DictComp, ast.ListComp)) \
                    and (any(is_conv(c) for c in calls_in(s2)) or is_conv(s2.value)):
                filled[s2.targets[0].id] = s2
        for name, st2 in filled.items():
            reads = [n for n in walk_no_nested(f3.node) if isinstance(n, ast.Name) and n.id == name and isinstance(n.ctx, ast.Load)
                     and not (isinstance(parent(n), ast.Subscript) and isinstance(parent(n).ctx, ast.Store))]
            used = [n for n in reads if n.lineno > st2.lineno]
            ctx.ob("R6", f3, f"{label}: converted statistics `{name}` are what is passed on", bool(used),
                   "read after being filled" if used else
                   f"`{name}` is filled with dtype-converted statistics but never read: the unconverted values are used instead "
                   "(Timestamp/Timedelta bounds come back as str/int)", f3.loc(st2))
        # every value that leaves (constructor argument / return) is converted
        outs = []
        for n in walk_no_nested(f3.node):
            if isinstance(n, ast.Call) and isinstance(n.func, ast.Name) and n.func.id == "check":
                outs.append(n)
        for c in outs:
            srcs = [a.value if isinstance(a, ast.keyword) else a for a in list(c.args) + [k for k in c.keywords]]
            ok_all = True
            for a in srcs:
                if is_conv(a):
                    continue
                if isinstance(a, ast.Name) and a.id in filled:
                    continue
                ok_all = False
            ctx.ob("R6", f3, f"{label}: `{txt(c)[:50]}` receives converted statistics", ok_all,
                   "arguments come from the dtype-aware converter" if ok_all else
                   "the check is rebuilt from statistics that did not pass the dtype-aware converter", f3.loc(c))
    ctx.assume("attribute sets A_col/A_idx/A_schema are those named in the property statement; every member is "
               "verified to be a constructor parameter on each run")


def _r3_slot(ctx, ix, io, f2, call, tname, k, params):
    v = k.value
    if is_quoted(v):
        ctx.ob("R3", f2, f"{tname} slot {k.arg}", True, f"rendered as python source by `{txt(v)[:60]}`", f2.loc(call))
        return
    # raw: look at the declared type of the attribute it reads
    kind, key = _source_attr(v)
    vv = v
    if kind is None and isinstance(v, ast.Name):
        for s in function_stmts(f2):
            if isinstance(s, ast.Assign) and any(isinstance(t, ast.Name) and t.id == v.id for t in s.targets):
                if is_quoted(s.value):
                    ctx.ob("R3", f2, f"{tname} slot {k.arg}", True, f"rendered by `{txt(s.value)[:60]}`", f2.loc(call))
                    return
                kind, key = _source_attr(s.value)
                vv = s.value
    if key is None:
        key = k.arg
    p = params.get(key) or params.get(k.arg)
    if p is None:
        ctx.ob("R3", f2, f"{tname} slot {k.arg}", False, f"raw value `{txt(v)}` of unknown declared type", f2.loc(call))
        return
    g, ann = p
    if ann is not None and g.cls is not None and kind == "attr" and _setter_wraps_str(ix, g.cls.qual, key):
        ann = _drop_str(ann)
    bare = admits_bare_str(ix, g.module, ann)
    ctx.ob("R3", f2, f"{tname} slot {k.arg}", not bare,
           (f"raw `{txt(vv)}`; declared type `{txt(ann) if ann is not None else None}` prints as a literal") if not bare else
           (f"raw `{txt(vv)}` is formatted unquoted but its declared type `{txt(ann) if ann is not None else 'untyped'}` "
            f"admits str/non-literal values: the generated script is not valid python for them"), f2.loc(call))
