"""C06 - errors use the documented channel; failures leave no trace."""

from __future__ import annotations

import ast

from ..callgraph import CallGraph, caught_classes, enclosing_tries, handler_reraises
from ..cfg import cfg_of, handler_names
from ..effprops import api_entries, engine
from ..index import AnalysisError, function_stmts, parent, walk_no_nested
from ..roles import reason_codes_in, schema_backend_classes
from ..util import callee_last, calls_in, enclosing_stmt, kw, path_condition, show_condition, txt

EXPLANATION = (
    "Static exception-discipline analysis (ast, CFG guards, resolved call graph, E5 restore classification; nothing "
    "executed). (R1) every temporary override of shared state (save / override / restore of an attribute; the "
    "config_context generator) restores in a `finally`; (R2) every run_check call inside a loop over schema.checks "
    "lies in a try whose handlers include `except Exception` building CoreCheckResult(passed=False, "
    "reason_code=CHECK_ERROR, original_exc=err) and whose re-raising handlers name only SchemaDefinitionError; parser "
    "callbacks are enumerated as well; (R3) typestate of collected errors: every subscript/attribute use of "
    "err.failure_cases / err.check_output while folding over collected errors is guarded by is_table / isinstance / "
    "is-not-None, because producers construct scalar failure cases and None outputs; (R4) every explicit `raise` "
    "reachable from a public validate entry outside a user-check fence raises a documented class (SchemaError, "
    "SchemaErrors, SchemaDefinitionError, SchemaInitError, TypeError for non-dataframes) or is one of the sites "
    "enumerated in the confirmed table. (R5) every Index.to_frame() conversion in the pandas backends allows duplicate level names (allow_duplicates=True or the shared _multiindex_to_frame helper), since it runs outside the user-check fence. R4 also discharges a raise under `X.attr is None` in a private helper when every reference to the helper sits under `X.attr is not None`. " 
    " (R7) both joint-uniqueness core checks intersect the schema-named columns with the frame's columns before selecting them (the check runs although column presence already failed in lazy mode; KeyError / ColumnNotFoundError is not a documented outcome); R1 also covers save / override / restore written over a collection (saved = [x.a for x in xs] ... for x, old in zip(xs, saved): x.a = old). " 
    " R7 also requires an empty selection (none of the listed columns present) to be skipped. " 
    "NOT decided: implicit exceptions raised inside pandas/polars; "
    "UnboundLocalError caused by value-level invariants (a handler running before the assignments of its try body, an empty loop) - R6 decides the branch-induced part only: (R6) no function reachable from validate reads a local that a branch-only path from its entry leaves unassigned (CFG may-analysis with correlated guards pruned)."
)
LEVEL_RULE = "one obligation per restore pattern / run_check site / typestate use / reachable raise statement"
FLOORS = {"R1": 2, "R2": 5, "R3": 4, "R4": 40, "R5": 2, "R6": 1, "R7": 2}

DOCUMENTED = {"SchemaError", "SchemaErrors", "SchemaDefinitionError", "SchemaInitError", "ParserError"}
# raise sites outside the documented set, confirmed by reading (function short name, exception class) -> reason
CONFIRMED_RAISES = {
    ("DataFrameSchemaBackend.validate", "TypeError"): "documented usage error: non-dataframe argument",
    ("SeriesSchema.validate", "TypeError"): "documented usage error: non-series argument",
    ("BaseSchema.get_backend", "ValueError"): "internal precondition: get_backend() is always called with check_obj",
    ("BaseSchema.get_backend", "BackendNotFoundError"): "unsupported data container type (usage error at dispatch)",
    ("BaseCheck.get_backend", "KeyError"): "unsupported data container type (usage error at dispatch), fenced by run_checks",
    ("ColumnBackend.get_regex_columns", "IndexError"): "documented: tuple regex name on non-MultiIndex columns (usage error)",
    ("convert_uniquesettings", "ValueError"): "report_duplicates is validated to the three literals at schema construction",
    ("ErrorHandler.collect_error", "<dynamic>"): "re-raises the SchemaError it was given (eager mode)",
    ("MultiIndexBackend.__coerce_index", "<dynamic>"): "re-raises the first collected SchemaError (eager mode)",
    ("MultiIndexBackend.__coerce_index", "<reraise>"): "re-raises SchemaErrors",
    ("DataFrameSchemaBackend.run_checks", "<reraise>"): "re-raises SchemaDefinitionError only",
    ("reshape_failure_cases", "TypeError"): "failure cases come from pandas check output: always Series/DataFrame at the call sites",
    ("DataFrameSchemaBackend.check_column_names_are_unique", "NotImplementedError"): "polars: never in core_checks (not called)",
    ("Column.__init__", "ValueError"): "constructor usage error (non-str regex name); the internal call passes name=str(col) with regex=False",
}


SELFTEST = """
def unsafe(schema, x):
    saved = schema.name
    schema.name = x
    work(schema)
    schema.name = saved

def safe(schema, x):
    saved = schema.name
    try:
        schema.name = x
        work(schema)
    finally:
        schema.name = saved

def work(s):
    return s
"""


def _detector_selftest():
    """The expected number of unsafe restore patterns on a healthy tree is zero, so the detector
    is exercised on a tiny positive example on every run."""
    from ..effects import Effects
    from ..index import Index
    ix2 = Index.from_sources({"pandera/_selftest.py": SELFTEST})
    eng2 = Effects(ix2).run(max_rounds=5)
    r = eng2.restores
    ok = r.get("pandera/_selftest.py::unsafe", {}).get((("P", "schema"), ("name",))) is False \
        and r.get("pandera/_selftest.py::safe", {}).get((("P", "schema"), ("name",))) is True
    kinds = {e.kind for e in eng2.summaries["pandera/_selftest.py::unsafe"].effects}
    return ok and kinds == {"restored-unsafe"}


def r1_restores(ctx):
    ix = ctx.ix
    if not _detector_selftest():
        raise AnalysisError("restore-pattern detector self-test failed")
    ctx.ob("R1", "pva.selftest", "detector self-test: restore outside finally is flagged, restore in finally accepted", True,
           "positive example matched")
    eng = engine(ix)
    n = 0
    for fq, rest in sorted(eng.restores.items()):
        f = ix.funcs.get(fq)
        if f is None or "pyspark" in f.module.path:
            continue
        for (root, path), infin in sorted(rest.items()):
            n += 1
            tgt = (root[1] if root[0] in ("P", "G") else "?") + "".join(f".{p}" for p in path)
            ctx.ob("R1", f, f"temporary override of {tgt} is restored", infin,
                   "restored in a finally: holds on every exit" if infin else
                   "the restoring assignment is not in a finally: if validation raises in between, the override stays")
    config_context_restore(ctx, "R1")
    ctx.stats["restore_patterns"] = n
    r1_collection_restores(ctx)


def _derives(fn):
    """name -> names it is computed from (assignments, loop targets from their iterables, with-as)"""
    d = {}
    for n in walk_no_nested(fn):
        if isinstance(n, ast.Assign):
            src = {x.id for x in ast.walk(n.value) if isinstance(x, ast.Name)}
            for t in n.targets:
                for x in ast.walk(t):
                    if isinstance(x, ast.Name) and isinstance(x.ctx, ast.Store):
                        d.setdefault(x.id, set()).update(src)
        elif isinstance(n, (ast.For, ast.comprehension)):
            src = {x.id for x in ast.walk(n.iter) if isinstance(x, ast.Name)}
            for x in ast.walk(n.target):
                if isinstance(x, ast.Name):
                    d.setdefault(x.id, set()).update(src)
    return d


SELFTEST_COLLECTION = """
def unsafe(schema, work):
    saved = [i.coerce for i in schema.indexes]
    for i in schema.indexes:
        i.coerce = False
    work(schema)
    for i, old in zip(schema.indexes, saved):
        i.coerce = old

def safe(schema, work):
    saved = [i.coerce for i in schema.indexes]
    try:
        for i in schema.indexes:
            i.coerce = False
        work(schema)
    finally:
        for i, old in zip(schema.indexes, saved):
            i.coerce = old
"""


def r1_collection_restores(ctx, ix=None):
    """Save / override / restore written with a collection: `saved = [x.attr for x in xs]` ... `for x in xs: x.attr = v`
    ... `for x, old in zip(xs, saved): x.attr = old`.  Same obligation as the scalar pattern: the restoring store has
    to sit in a `finally`, otherwise a failing validation in between leaves the override on the caller's schema."""
    if ix is None:
        from ..index import Index

        class _S:
            def __init__(self):
                self.obs, self.stats = [], {}

            def ob(self, rule, f, construct, ok, detail, loc=None):
                self.obs.append((f.name, ok))
        sink = _S()
        r1_collection_restores(sink, Index.from_sources({"pandera/api/_selftest.py": SELFTEST_COLLECTION}))
        if sorted(sink.obs) != [("safe", True), ("unsafe", False)]:
            raise AnalysisError(f"collection-restore self-test failed: {sink.obs}")
    ix = ix or ctx.ix
    n = 0
    for m in ix.modules.values():
        if not m.path.startswith(("pandera/backends/", "pandera/api/")) or "pyspark" in m.path:
            continue
        for f in m.all_functions:
            stores = [st for st in walk_no_nested(f.node) if isinstance(st, ast.Assign) and len(st.targets) == 1 and isinstance(st.targets[0], ast.Attribute)]
            if len(stores) < 2:
                continue
            saved = {}   # local name -> attribute names whose values it holds
            for st in walk_no_nested(f.node):
                if isinstance(st, ast.Assign) and len(st.targets) == 1 and isinstance(st.targets[0], ast.Name):
                    v = st.value
                    attrs = set()
                    if isinstance(v, (ast.ListComp, ast.DictComp, ast.GeneratorExp, ast.SetComp)):
                        elts = [v.elt] if not isinstance(v, ast.DictComp) else [v.value]
                        for e in elts:
                            for x in ast.walk(e):
                                if isinstance(x, ast.Attribute) and isinstance(x.ctx, ast.Load):
                                    attrs.add(x.attr)
                    if attrs:
                        saved[st.targets[0].id] = attrs
            if not saved:
                continue
            der = _derives(f.node)

            def from_saved(name, attr, seen=()):
                if name in saved and attr in saved[name]:
                    return True
                return any(from_saved(y, attr, seen + (name,)) for y in der.get(name, ()) if y not in seen and y != name)

            for st in stores:
                t = st.targets[0]
                if not (isinstance(st.value, ast.Name) and from_saved(st.value.id, t.attr)):
                    continue
                # an override of the same attribute elsewhere in the function makes this a restore
                overrides = [o for o in stores if o is not st and o.targets[0].attr == t.attr]
                if not overrides:
                    continue
                n += 1
                infin = False
                ch, p_ = st, parent(st)
                while p_ is not None and p_ is not f.node:
                    if isinstance(p_, ast.Try) and any(ch is b for b in p_.finalbody):
                        infin = True
                    ch, p_ = p_, parent(p_)
                ctx.ob("R1", f, f"temporary override of `.{t.attr}` on the elements of a collection is restored", infin,
                       "restored in a finally: holds on every exit" if infin else
                       f"`{txt(st)}` (line {st.lineno}) restores the values saved before `{txt(overrides[0])}` but is not in a finally: "
                       "if validation raises in between, the override stays on the caller's schema", f.loc(st))
    ctx.stats["collection_restore_patterns"] = n


def config_context_restore(ctx, rule):
    """config_context: yield inside try/finally that restores from a snapshot taken before the try"""
    ix = ctx.ix
    m = ix.module("pandera/config.py")
    f = m.functions.get("config_context")
    if f is None:
        raise AnalysisError("config_context missing")
    ys = [y for y in walk_no_nested(f.node) if isinstance(y, ast.Yield)]
    ok, detail = False, "no yield"
    if ys:
        t = None
        p = parent(ys[0])
        while p is not None and p is not f.node:
            if isinstance(p, ast.Try):
                t = p
                break
            p = parent(p)
        if t is None or not t.finalbody:
            detail = "yield is not inside try/finally: an exception in the body leaves the overrides in force"
        else:
            snap = [s for s in f.node.body if isinstance(s, ast.Assign) and f.node.body.index(s) < f.node.body.index(t)]
            names = {tt.id for s in snap for tt in s.targets if isinstance(tt, ast.Name)}
            restores = [c for s in t.finalbody for c in calls_in(s) if any(isinstance(a, ast.Name) and a.id in names for a in c.args)]
            writes_before = [s for s in f.node.body[: f.node.body.index(t)] if any(
                isinstance(x, ast.Attribute) and isinstance(x.ctx, ast.Store) for x in ast.walk(s))]
            ok = bool(restores) and not writes_before
            detail = ("snapshot before try, overrides inside try, restore from the snapshot in finally" if ok else
                      f"restore-from-snapshot calls in finally: {len(restores)}, writes before try: {len(writes_before)}")
    ctx.ob(rule, f, "config_context restores the outer configuration in a finally", ok, detail)


def _check_loops(f):
    """run_check / run_parser calls inside loops over schema.checks / schema.parsers"""
    out = []
    for c in calls_in(f.node):
        if callee_last(c) in ("run_check", "run_parser") and isinstance(c.func, ast.Attribute):
            p = parent(c)
            while p is not None and p is not f.node:
                if isinstance(p, ast.For) and (".checks" in txt(p.iter) or ".parsers" in txt(p.iter)):
                    out.append((c, p))
                    break
                p = parent(p)
    return out


def r2_fences(ctx):
    ix = ctx.ix
    for bc in schema_backend_classes(ix):
        for lst in bc.methods.values():
            for f in lst:
                for c, loop in _check_loops(f):
                    kind = callee_last(c)
                    tries = enclosing_tries(c, f.node)
                    tries = [t for t in tries if _inside(t, loop)]
                    if kind == "run_parser":
                        fenced = any(set(n) & {"Exception", "BaseException"} for t in tries for n, _ in caught_classes(t))
                        ctx.ob("R2", f, f"user parser call `{txt(c.func)}(...)` is fenced", fenced,
                               "broad handler present" if fenced else
                               "an exception raised by a user parser function leaves validate as a raw exception "
                               "(not SchemaError/SchemaErrors)", f.loc(c))
                        continue
                    if not tries:
                        ctx.ob("R2", f, f"user check call `{txt(c.func)}(...)` is fenced", False,
                               "run_check is not inside a try: an exception raised by a user check function escapes "
                               "validate instead of being reported as a failed check", f.loc(c))
                        continue
                    t = tries[0]
                    probs = []
                    broad = None
                    for names, h in caught_classes(t):
                        if set(names) & {"Exception", "BaseException"}:
                            broad = h
                        elif handler_reraises(h) and set(names) - {"SchemaDefinitionError"}:
                            probs.append(f"handler {names} re-raises")
                        elif any(isinstance(s, ast.Raise) and s.exc is not None for s in ast.walk(h)):
                            probs.append(f"handler {names} raises a new exception")
                    if broad is None:
                        probs.append("no `except Exception` handler")
                    else:
                        if handler_reraises(broad) or any(isinstance(s, ast.Raise) for s in ast.walk(broad)):
                            probs.append("the broad handler raises")
                        res = [x for x in calls_in(broad) if callee_last(x) == "CoreCheckResult"]
                        if not res:
                            probs.append("the broad handler builds no CoreCheckResult")
                        # the handler itself must not be able to raise on an exception without arguments
                        for sub in ast.walk(broad):
                            if isinstance(sub, ast.Subscript) and isinstance(sub.value, ast.Attribute) and sub.value.attr == "args" \
                                    and isinstance(sub.value.value, ast.Name) and sub.value.value.id == broad.name:
                                guarded = False
                                q = parent(sub)
                                while q is not None and q is not broad:
                                    if isinstance(q, (ast.IfExp, ast.If)) and "args" in txt(q.test):
                                        guarded = True
                                    q = parent(q)
                                if not guarded:
                                    probs.append(f"`{txt(sub)}` is read without testing len({broad.name}.args): a check raising an exception "
                                                 "without arguments makes the handler itself raise IndexError")
                        # elements of err.args are arbitrary objects: only formatting / str() / repr() may touch them
                        def _is_arg_elem(n):
                            return isinstance(n, ast.Subscript) and isinstance(n.value, ast.Attribute) and n.value.attr == "args" \
                                and isinstance(n.value.value, ast.Name) and n.value.value.id == broad.name
                        aliases = set()
                        for sub in ast.walk(broad):
                            if isinstance(sub, ast.Assign) and _is_arg_elem(sub.value):
                                aliases |= {t.id for t in sub.targets if isinstance(t, ast.Name)}
                        for sub in ast.walk(broad):
                            recv = None
                            if isinstance(sub, ast.Attribute):
                                recv = sub.value
                            elif isinstance(sub, ast.Subscript) and not _is_arg_elem(sub):
                                recv = sub.value
                            elif isinstance(sub, ast.BinOp):
                                recv = sub.left if (_is_arg_elem(sub.left) or (isinstance(sub.left, ast.Name) and sub.left.id in aliases)) else sub.right
                            if recv is not None and (_is_arg_elem(recv) or (isinstance(recv, ast.Name) and recv.id in aliases)):
                                probs.append(f"`{txt(sub)[:60]}` treats an element of {broad.name}.args as a string / container: a check that raises "
                                             "KeyError(2) or an exception carrying any non-string argument makes the handler itself raise "
                                             "AttributeError/TypeError, which leaks from validate instead of being reported as a failed check")
                                break
                        for x in res:
                            p = kw(x, "passed")
                            if not (isinstance(p, ast.Constant) and p.value is False):
                                probs.append("CoreCheckResult in the handler is not passed=False")
                            if "CHECK_ERROR" not in reason_codes_in(kw(x, "reason_code") or ast.Constant(None)):
                                probs.append("reason_code is not CHECK_ERROR")
                            oe = kw(x, "original_exc")
                            if not (isinstance(oe, ast.Name) and oe.id == broad.name):
                                probs.append("original_exc is not the caught exception")
                            stmt = enclosing_stmt(x)
                            if not (isinstance(stmt, ast.Expr) and callee_last(stmt.value) == "append"
                                    or isinstance(stmt, (ast.Return, ast.Assign))):
                                probs.append("the result built in the handler is discarded")
                    ctx.ob("R2", f, f"user check call `{txt(c.func)}(...)` is fenced", not probs,
                           "except Exception -> CoreCheckResult(passed=False, CHECK_ERROR, original_exc)" if not probs else "; ".join(probs),
                           f.loc(c))


def _inside(node, root):
    while node is not None:
        if node is root:
            return True
        node = parent(node)
    return False


TYPE_GUARDS = ("is_table(", "isinstance(", " is None", "hasattr(")


def _is_collected_schema_error(f, base) -> bool:
    """Is `base` bound to a collected SchemaError?  Decided by what it is bound to - an element of `<x>.schema_errors` /
    `.collected_errors` / a parameter or local list of schema errors, or the name of an `except SchemaError` handler -
    never by how the variable is called."""
    if not isinstance(base, ast.Name):
        return False
    name = base.id
    scopes = [f]
    p = getattr(f, "parent", None)
    while p is not None:
        scopes.append(p)
        p = getattr(p, "parent", None)
    for g in scopes:
        ann = g.annotations().get(name) if hasattr(g, "annotations") else None
        if ann is not None and "SchemaError" in txt(ann):
            return True
        for n in walk_no_nested(g.node):
            if isinstance(n, ast.ExceptHandler) and n.name == name and n.type is not None and "SchemaError" in txt(n.type):
                return True
            if isinstance(n, (ast.For, ast.comprehension)):
                tgt = [x.id for x in ast.walk(n.target) if isinstance(x, ast.Name)]
                if name not in tgt:
                    continue
                it = n.iter
                while isinstance(it, ast.Call) and it.args and isinstance(it.func, ast.Name) and it.func.id in ("enumerate", "list", "reversed", "sorted"):
                    it = it.args[0]
                t = txt(it)
                if "schema_errors" in t or "collected_errors" in t:
                    return True
                if isinstance(it, ast.Name):
                    a2 = g.annotations().get(it.id) if hasattr(g, "annotations") else None
                    if a2 is not None and "SchemaError" in txt(a2):
                        return True
                    for m in walk_no_nested(g.node):
                        if isinstance(m, ast.Assign) and len(m.targets) == 1 and isinstance(m.targets[0], ast.Name) and m.targets[0].id == it.id \
                                and ("schema_errors" in txt(m.value) or "collected_errors" in txt(m.value)):
                            return True
    return False


def r3_typestate(ctx):
    """Uses of err.failure_cases / err.check_output as a frame while folding over collected errors."""
    ix = ctx.ix
    mods = ["pandera/backends/pandas/base.py", "pandera/backends/polars/base.py", "pandera/backends/pandas/error_formatters.py",
            "pandera/backends/pandas/components.py", "pandera/backends/pandas/container.py", "pandera/backends/polars/container.py",
            "pandera/backends/polars/components.py", "pandera/backends/pandas/array.py"]
    for mp in mods:
        m = ix.module(mp)
        for f in m.all_functions:
            cfg = None
            for n in walk_no_nested(f.node):
                attr = None
                use = None
                if isinstance(n, ast.Subscript) and isinstance(n.value, ast.Attribute) and n.value.attr in ("failure_cases", "check_output"):
                    attr, use = n.value, f"{txt(n)[:50]}"
                elif isinstance(n, ast.Attribute) and isinstance(n.value, ast.Attribute) and n.value.attr in ("failure_cases", "check_output") \
                        and isinstance(n.ctx, ast.Load):
                    attr, use = n.value, f"{txt(n)[:50]}"
                elif isinstance(n, (ast.Dict, ast.DictComp)) and any(
                        isinstance(x, ast.Attribute) and x.attr == "check_output" for x in ast.walk(n)) and f.name == "drop_invalid_rows":
                    for x in ast.walk(n):
                        if isinstance(x, ast.Attribute) and x.attr == "check_output":
                            attr, use = x, f"{txt(x)} used as a mask column"
                            break
                if attr is None:
                    continue
                if not _is_collected_schema_error(f, attr.value):
                    continue  # a CheckResult / ParserError / anything that is not one of the collected SchemaErrors
                cfg = cfg or cfg_of(f.node)
                st = enclosing_stmt(n)
                node = cfg.node_of(st)
                if node is None:
                    continue
                obj = txt(attr)
                keep = lambda t, nn, obj=obj: obj in t and any(g in t for g in TYPE_GUARDS)
                pc = path_condition(cfg, node.id, keep=keep)
                guarded = bool(pc[0])
                # comprehension-local guards (`... if cond`) and conditional expressions
                p = parent(n)
                while not guarded and p is not None and p is not st:
                    if isinstance(p, ast.IfExp) and obj in txt(p.test):
                        guarded = True
                    if isinstance(p, (ast.ListComp, ast.DictComp, ast.GeneratorExp, ast.SetComp)):
                        guarded = guarded or any(obj in txt(c) for g in p.generators for c in g.ifs)
                    p = parent(p)
                # a helper that receives the error as a parameter: the shape may be tested at every call site instead
                if not guarded and isinstance(attr.value, ast.Name) and attr.value.id in f.params and f.cls is None:
                    pidx = f.params.index(attr.value.id)
                    sites = []
                    for g in f.module.all_functions:
                        for cc in calls_in(g.node):
                            if isinstance(cc.func, ast.Name) and cc.func.id == f.name and g is not f:
                                sites.append((g, cc))
                    if not sites and f.name.startswith("_"):
                        continue   # expanded at every call site by the normaliser (N10): judged there, with the caller's guards
                    ok_sites = bool(sites)
                    for g, cc in sites:
                        a_ = cc.args[pidx] if pidx < len(cc.args) else kw(cc, attr.value.id)
                        if a_ is None:
                            ok_sites = False
                            continue
                        gcfg = cfg_of(g.node)
                        gnode = gcfg.node_of(enclosing_stmt(cc))
                        tgt = f"{txt(a_)}.{attr.attr}"
                        gpc = path_condition(gcfg, gnode.id, keep=lambda t, nn, tgt=tgt: tgt in t and any(x in t for x in TYPE_GUARDS)) if gnode is not None else ((), None)
                        if not gpc[0]:
                            ok_sites = False
                    guarded = ok_sites
                ctx.ob("R3", f, f"`{use}` is used only after its shape is tested", guarded,
                       f"guarded by {show_condition(pc)}" if guarded else
                       f"{obj} of a collected error may be a scalar / None (dtype, presence and check-error results carry "
                       f"scalar failure cases and no check_output) but is used as a frame unconditionally", f.loc(n))


def _raised_class(r: ast.Raise):
    if r.exc is None:
        return "<reraise>"
    e = r.exc
    if isinstance(e, ast.Call):
        e = e.func
    if isinstance(e, ast.Attribute):
        return e.attr if e.attr[:1].isupper() else "<dynamic>"
    if isinstance(e, ast.Name):
        if e.id[:1].isupper():
            return e.id
        # `raise saved` where `saved` only ever holds the exception bound by `except X as exc` handlers of this function
        fn = parent(r)
        while fn is not None and not isinstance(fn, (ast.FunctionDef, ast.AsyncFunctionDef)):
            fn = parent(fn)
        if fn is not None:
            handler_vars = {}
            for h in walk_no_nested(fn):
                if isinstance(h, ast.ExceptHandler) and h.name:
                    handler_vars.setdefault(h.name, set()).update(handler_names(h))
            classes, ok = set(), True
            if e.id in handler_vars:
                classes |= handler_vars[e.id]
            for st in walk_no_nested(fn):
                if isinstance(st, ast.Assign) and any(isinstance(t, ast.Name) and t.id == e.id for t in st.targets):
                    v = st.value
                    if isinstance(v, ast.Constant) and v.value is None:
                        continue
                    if isinstance(v, ast.Name) and v.id in handler_vars:
                        classes |= handler_vars[v.id]
                    else:
                        ok = False
            if ok and len(classes) == 1:
                return next(iter(classes))
        return "<dynamic>"
    return "<dynamic>"


def _none_atom(test, positive):
    """names (X, attr) for which `test` being true implies `X.attr is None` (positive) / `X.attr is not None` (not positive)"""
    out = set()
    conj = test.values if isinstance(test, ast.BoolOp) and isinstance(test.op, ast.And) else [test]
    for c in conj:
        if isinstance(c, ast.Compare) and len(c.ops) == 1 and isinstance(c.comparators[0], ast.Constant) and c.comparators[0].value is None \
                and isinstance(c.left, ast.Attribute) and isinstance(c.left.value, ast.Name):
            if isinstance(c.ops[0], ast.Is if positive else ast.IsNot):
                out.add((c.left.value.id, c.left.attr))
    return out


def _established(node, want_none):
    """(X, attr) pairs known to be None (want_none) / not None at `node`, from the enclosing if-statements (lambdas and
    nested functions are crossed: the closure variables are the same objects)"""
    out = set()
    child, p = node, parent(node)
    while p is not None:
        if isinstance(p, ast.If):
            if any(child is b for b in p.body):
                out |= _none_atom(p.test, want_none)
            elif any(child is b for b in p.orelse) and not (isinstance(p.test, ast.BoolOp)):
                out |= _none_atom(p.test, not want_none)
        child, p = p, parent(p)
    return out


def _unreachable_precondition(ix, f, s):
    """`raise` under `if X.attr is None` in a private helper f whose every reference in the module sits under
    `if Y.attr is not None` for the Y bound to X: the raise cannot execute.  Returns a reason or None."""
    none_here = _established(s, True)
    if not none_here or not (f.name.startswith("_") or getattr(f, "parent", None) is not None):
        return None
    params = [a.arg for a in f.node.args.args]
    refs = []
    for n in ast.walk(f.module.tree):
        if isinstance(n, ast.Name) and n.id == f.name and isinstance(n.ctx, ast.Load):
            refs.append(n)
        elif isinstance(n, ast.Attribute) and n.attr == f.name and isinstance(n.value, ast.Name) and n.value.id in ("self", "cls"):
            refs.append(n)
    if not refs:
        return None
    for x, attr in sorted(none_here):
        ok = True
        for r in refs:
            call = parent(r) if isinstance(parent(r), ast.Call) and parent(r).func is r else None
            y = x
            if x in params:
                if call is None:
                    ok = False
                    break
                i = params.index(x)
                if isinstance(r, ast.Attribute) and not f.is_static() and params and params[0] in ("self", "cls"):
                    i -= 1
                arg = call.args[i] if 0 <= i < len(call.args) else kw(call, x)
                if not isinstance(arg, ast.Name):
                    ok = False
                    break
                y = arg.id
            if (y, attr) not in _established(r, False):
                ok = False
                break
        if ok:
            return f"unreachable: raised under `{x}.{attr} is None`, and each of the {len(refs)} reference(s) to {f.name} is under `.{attr} is not None`"
    return None


def r4_raises(ctx):
    ix = ctx.ix
    eng = engine(ix)
    cg = CallGraph(eng)
    roots = []
    for cq, f, fl in api_entries(ix, names=("validate",)):
        if f not in roots:
            roots.append(f)
    in_scope = lambda g: any(g.module.path.startswith(p) for p in (
        "pandera/backends/pandas/", "pandera/backends/polars/", "pandera/backends/base/", "pandera/backends/utils.py",
        "pandera/api/base/", "pandera/api/dataframe/components.py", "pandera/api/dataframe/container.py",
        "pandera/api/pandas/", "pandera/api/polars/", "pandera/errors.py", "pandera/validation_depth.py", "pandera/config.py"))
    states, seen = cg.reachable_catching(roots, stop=lambda g: not in_scope(g))
    ctx.stats["functions_reachable_from_validate"] = len(states)
    ctx._c06_reachable = sorted(states)
    n = 0
    from ..callgraph import caught_at
    for q in sorted(states):
        f = ix.funcs[q]
        if f.name in ("strategy", "example", "strategy_component") or "hypotheses" in f.module.path:
            continue
        body = [b for b in getattr(f.node, "body", []) if not (isinstance(b, ast.Expr) and isinstance(b.value, ast.Constant))]
        if len(body) == 1 and isinstance(body[0], ast.Raise) and _raised_class(body[0]) == "NotImplementedError":
            continue  # abstract stub of an interface method: overridden by every registered backend / schema class
        for s in walk_no_nested(f.node):
            if not isinstance(s, ast.Raise):
                continue
            cls = _raised_class(s)
            n += 1
            if cls in DOCUMENTED:
                ctx.ob("R4", f, f"raise {cls}", True, "documented channel", f.loc(s))
                continue
            if cls == "<reraise>":
                h = parent(s)
                while h is not None and not isinstance(h, ast.ExceptHandler):
                    h = parent(h)
                names = set(handler_names(h)) if h is not None else set()
                if names and names <= DOCUMENTED:
                    ctx.ob("R4", f, f"re-raise of {sorted(names)}", True, "re-raises a documented class", f.loc(s))
                    continue
            local = caught_at(s, f.node)
            contained = lambda caught: bool({cls, "Exception", "BaseException"} & (set(caught) | set(local)))
            if all(contained(c) for c in states[q]):
                ctx.ob("R4", f, f"raise {cls}", True,
                       "contained: every call chain from validate reaches it inside a try that catches it", f.loc(s))
                continue
            key = (f.short, cls)
            if key in CONFIRMED_RAISES:
                ctx.ob("R4", f, f"raise {cls}", True, "confirmed site: " + CONFIRMED_RAISES[key], f.loc(s))
                continue
            why = _unreachable_precondition(ix, f, s)
            if why:
                ctx.ob("R4", f, f"raise {cls}", True, why, f.loc(s))
                continue
            chain = " -> ".join(cg.path_to(seen, q)[-5:])
            ctx.ob("R4", f, f"raise {cls} in {f.short}", False,
                   f"`{txt(s)[:70]}` is reachable from validate outside any handler that catches it ({chain}) and {cls} is not a "
                   "documented outcome of validate", f.loc(s))
    ctx.stats["raise_statements_examined"] = n


def r5_duplicate_level_names(ctx):
    """A MultiIndex may legally carry two levels with the same name.  `Index.to_frame()` raises ValueError on such an
    index unless allow_duplicates=True, and several callers (nullable / unique / dtype core checks, joint uniqueness) run
    outside the user-check fence - so every index-to-frame conversion in the pandas backends has to allow duplicates."""
    from ..flow import FlowExpander
    ix = ctx.ix
    n = 0
    for m in ix.modules.values():
        if not m.path.startswith("pandera/backends/pandas/"):
            continue
        for f in m.all_functions:
            calls = [c for c in calls_in(f.node, nested=True) if callee_last(c) == "to_frame" and isinstance(c.func, ast.Attribute)]
            if not calls:
                continue
            fx = None
            for c in calls:
                recv = c.func.value
                t = txt(recv)
                indexish = t.endswith(".index") or (isinstance(recv, ast.Name) and "index" in recv.id.lower() and "case" not in recv.id.lower())
                if not indexish and isinstance(recv, ast.Name):
                    fx = fx or FlowExpander(f.node)
                    try:
                        indexish = txt(fx.expand(recv)).endswith(".index")
                    except Exception:
                        indexish = False
                if not indexish:
                    continue
                n += 1
                allow = kw(c, "allow_duplicates")
                ok = isinstance(allow, ast.Constant) and allow.value is True
                why = "allow_duplicates=True"
                if not ok:
                    # version / library guarded fall-backs: old pandas (no such keyword) and pyspark.pandas
                    from ..cfg import cfg_of as _cfg_of
                    g = f
                    st = enclosing_stmt(c)
                    owner = f
                    cfg = _cfg_of(owner.node)
                    node = cfg.node_of(st)
                    if node is None and f.nested:
                        for h in f.nested.values():
                            cfg2 = _cfg_of(h.node)
                            if cfg2.node_of(st) is not None:
                                cfg, node = cfg2, cfg2.node_of(st)
                    if node is not None:
                        pc = path_condition(cfg, node.id, keep=lambda tt, nn: "pyspark" in tt or "pandas_version" in tt)
                        if pc[0] and len(pc[1]) == 1:
                            d = dict(zip(pc[0], next(iter(pc[1]))))
                            if any("pyspark" in k and v for k, v in d.items()) or any("pandas_version" in k and not v for k, v in d.items()):
                                ok, why = True, f"library/version guarded fall-back ({show_condition(pc)})"
                ctx.ob("R5", f, f"`{txt(c)[:60]}` tolerates duplicate level names", ok,
                       why if ok else
                       "Index.to_frame() without allow_duplicates=True raises `ValueError: Cannot create duplicate column labels` for a MultiIndex "
                       "whose levels share a name; the failure-case reshaping is reached from core checks outside the user-check fence, so the "
                       "ValueError leaks from validate", f.loc(c))
    if n == 0:
        raise AnalysisError("no index-to-frame conversion found in the pandas backends")


SELFTEST_R6 = """
def pick(a, b):
    if a:
        x = 1
    elif b:
        x = 2
    return x

def fine(a, items):
    if a:
        x = 1
    for i in items:
        y = i
    try:
        z = next(items)
    except StopIteration:
        pass
    if a:
        return x, y, z
    return None
"""


def r6_definite_assignment(ctx):
    """An UnboundLocalError is not a documented outcome of validate.  Every function reachable from a public validate
    entry is checked for reads of a local that a branch-only path reaches without an assignment (a local assigned on some
    arms of an if/elif/match and read after the join).  The analysis is optimistic about what no static argument in reach
    settles - a handler runs after the assignments of its try body, a `for` body is assumed to have run when the code
    after it reads what it assigns - and follows correlated guards (`if c: x = ...` ... `if c: use(x)`) by pruning the
    branches that contradict the conditions of the read."""
    from ..defassign import maybe_unbound
    import ast as _ast
    t = _ast.parse(SELFTEST_R6)
    for n in _ast.walk(t):
        for c in _ast.iter_child_nodes(n):
            c._parent = n  # type: ignore[attr-defined]
    got = {fn.name: [(u.id) for u, _, _ in maybe_unbound(fn)] for fn in t.body}
    if got != {"pick": ["x"], "fine": []}:
        raise AnalysisError(f"definite-assignment self-test failed: {got}")
    ix = ctx.ix
    n = 0
    for q in getattr(ctx, "_c06_reachable", []):
        f = ix.funcs[q]
        if "hypotheses" in f.module.path or f.name in ("strategy", "example", "strategy_component"):
            continue
        n += 1
        bad = maybe_unbound(f.node)
        if not bad:
            continue
        seen = set()
        for u, nid, why in bad:
            if u.id in seen:
                continue
            seen.add(u.id)
            ctx.ob("R6", f, f"local `{u.id}` is assigned before it is read", False,
                   f"`{u.id}` (read at line {u.lineno}) has {why}: UnboundLocalError would escape validate instead of a SchemaError(s)", f.loc(u))
    ctx.ob("R6", ix.funcs[ctx._c06_reachable[0]], "no branch-only path reads an unassigned local in the functions reachable from validate", True,
           f"{n} functions analysed")
    ctx.stats["definite_assignment_functions"] = n


def r7_schema_named_columns_present(ctx):
    """The joint-uniqueness core check runs even when the column-presence check has already failed (lazy mode collects
    and goes on) and for optional columns that are absent.  Selecting a schema-named column the frame does not have
    raises inside pandas / polars (KeyError / ColumnNotFoundError), which is not a documented outcome - so on both
    backends the column list handed to duplicated()/select()/loc is first intersected with the frame's columns."""
    from ..expand import expanded
    from ..util import Expander
    from .c08 import PDC, PLC
    ix = ctx.ix
    for q in (PDC, PLC):
        f0 = ix.cls(q).lookup("check_column_values_are_unique")
        if f0 is None:
            raise AnalysisError(f"{q}.check_column_values_are_unique missing")
        ctx.touched(f0)
        f = expanded(ix, f0)
        data = f0.positional[1]
        ex = Expander(f.node)
        uses = []
        for c in calls_in(f.node):
            if callee_last(c) in ("select", "duplicated", "is_duplicated") and isinstance(c.func, ast.Attribute):
                a = kw(c, "subset") or (c.args[0] if c.args else None)
                if a is not None and txt(c.func.value).split(".")[0] == data:
                    uses.append((c, a))
        for n in walk_no_nested(f.node):
            if isinstance(n, ast.Subscript) and isinstance(n.ctx, ast.Load) and txt(n.value) in (data, f"{data}.loc"):
                sl = n.slice.elts[-1] if isinstance(n.slice, ast.Tuple) else n.slice
                if isinstance(sl, ast.Name):
                    uses.append((n, sl))
        flavour = "polars" if "/polars/" in q else "pandas"
        if not uses:
            raise AnalysisError(f"{flavour} check_column_values_are_unique: no column selection found")
        for node, a in uses:
            filt = False
            for d in ex.closure(a):
                for x in ast.walk(d):
                    if isinstance(x, ast.comprehension):
                        for cond in x.ifs:
                            for cmp_ in ast.walk(cond):
                                if isinstance(cmp_, ast.Compare) and len(cmp_.ops) == 1 and isinstance(cmp_.ops[0], ast.In) \
                                        and data in {nm.id for nm in ast.walk(cmp_.comparators[0]) if isinstance(nm, ast.Name)}:
                                    filt = True
                    if isinstance(x, ast.Call) and callee_last(x) in ("intersection",) and data in txt(x):
                        filt = True
            if filt and isinstance(node, ast.Call):
                # ... and an empty selection is skipped: `duplicated(subset=[])` / `select([]).is_duplicated()` raise on the
                # empty list that the filter leaves when none of the listed columns is there (an optional column not supplied)
                from ..cfg import cfg_of as _cfg
                from ..util import enclosing_stmt as _es
                cfg7 = _cfg(f.node)
                nd7 = cfg7.node_of(_es(node))
                an = txt(a) if isinstance(a, ast.Name) else None
                guards7 = [(txt(t), pol) for t, pol in (cfg7.guards(nd7.id) if nd7 is not None else [])]
                skipped = an is not None and any((g == an and pol) or (g in (f"not {an}", f"not({an})") and not pol) or (g.startswith(f"len({an})") and pol) for g, pol in guards7)
                ctx.ob("R7", f0, f"{flavour} joint uniqueness: nothing is selected when none of the listed columns is present", skipped,
                       "empty column list skipped" if skipped else
                       f"`{txt(node)[:50]}` also runs with an empty `{an}`: DataFrameSchema({{'a': Column(int), 'b': Column(int, required=False)}}, unique=['b']) on a frame without "
                       "`b` raises ValueError / ComputeError out of validate instead of accepting the frame", f0.loc(node))
            ctx.ob("R7", f0, f"{flavour} joint uniqueness: `{txt(node)[:50]}` selects only columns the frame has", filt,
                   "column list is filtered by membership in the frame's columns" if filt else
                   f"`{txt(a)}` comes straight from schema.unique: with lazy=True (presence failure only collected) or an optional absent column "
                   "the selection raises KeyError / ColumnNotFoundError out of validate", f0.loc(node))


def run(ctx):
    r1_restores(ctx)
    r2_fences(ctx)
    r3_typestate(ctx)
    r4_raises(ctx)
    r5_duplicate_level_names(ctx)
    r6_definite_assignment(ctx)
    r7_schema_named_columns_present(ctx)
    ctx.assume("exceptions raised inside pandas/polars/numpy calls are not modelled")
