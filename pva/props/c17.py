"""C17 - decorators gate the call on validation and are otherwise transparent."""

from __future__ import annotations

import ast

from ..cfg import cfg_of
from ..index import AnalysisError, function_stmts, walk_no_nested
from ..util import callee_last, calls_in, kw, txt, enclosing_stmt, in_subtree, path_condition, show_condition

EXPLANATION = (
    "Static analysis of pandera/decorators.py (ast + per-function CFG). Decides: (R1) every schema.validate call "
    "site in the decorators receives all six validation options of the decorator (head, tail, sample, random_state, "
    "lazy, inplace) in signature order or by keyword, directly or through a tuple defined from those parameters; "
    "(R2) in check_input every path to the wrapped call passes a schema.validate whose result is stored into the "
    "argument structure that reaches the call; (R3) check_output returns the validated value on the sync and the "
    "async path and every return of its inner validate is preceded by validation; (R4) check_io forwards its option "
    "tuple to both check_input and check_output in their parameter order; (R5) check_types validates inputs before "
    "the call, returns the checked output, and its partial re-application forwards every option. (R6) inside check_types' argument handling, a pass-through `return arg` without validation is never reached for None under a non-Optional annotation; (R7) coroutine detection (inspect.iscoroutinefunction) is applied to the innermost function through _unwrap_fn. " 
    " (R8) definite assignment: no function of pandera/decorators.py reads a local that a branch-only path from its entry leaves unassigned (CFG may-analysis, optimistic about try bodies and loop bodies, correlated guards pruned, non-empty local accumulators accepted as witnesses) - an UnboundLocalError there would escape the decorated call. " 
    " (R9) no write-back by slice arithmetic on an un-normalised obj_getter position (`out[:g] + (v,) + out[g + 1:]` is wrong for g == -1); (R10) the accessor keeps the validated-schema mark on the accessor instance only (`self._schema`), never through the data object (`attrs`), which pandas propagates to derived frames. " 
    " (R11) AnnotationInfo reduces a union annotation to its first member only under a test of `optional`; (R12) typing.*.pydantic_validate returns the object that schema.validate returned, not the raw input. " 
    "NOT decided: "
    "argument binding over all signature shapes (inspect.signature semantics), from_format/to_format conversions."
    ' (R13) the positional list handed to the wrapped function is never rebuilt from the `.values()` of a BoundArguments.arguments mapping (a *args parameter is one entry of it); R2 follows a store into such a mapping through the object it is a view of.'
    ' (R14) under an `isinstance(out, tuple)` guard the decorators rebuild a result with its own type (type(out)(...), _make, _replace), never with the base tuple constructor.'
    ' (R15) every unbundling of the variadic entry of a bound-arguments mapping in check_types (pop / popitem on the mapping) is guarded by a test that reads Parameter.kind / VAR_POSITIONAL / VAR_KEYWORD (followed through local and enclosing-scope definitions), never by a size comparison.'
)
LEVEL_RULE = "one obligation per validate call site / obj_getter branch / wrapper / forwarding call in decorators.py"
FLOORS = {"R1": 7, "R2": 3, "R3": 4, "R4": 2, "R5": 5, "R6": 2, "R7": 2, "R8": 1, "R9": 1, "R10": 2, "R11": 1, "R12": 1}

DEC = "pandera/decorators.py"
OPTS = ["head", "tail", "sample", "random_state", "lazy", "inplace"]


def _closure_chain(f):
    out = []
    while f is not None:
        out.append(f)
        f = f.parent
    return out


def _tuple_def(f, name):
    """Definition of a local/closure tuple variable."""
    for g in _closure_chain(f):
        for s in function_stmts(g):
            if isinstance(s, ast.Assign) and any(isinstance(t, ast.Name) and t.id == name for t in s.targets):
                return s.value
    return None


def _owner_params(f):
    for g in _closure_chain(f):
        if all(o in g.params for o in OPTS):
            return g
    return None


def _options_passed(f, call, skip_positional):
    """Which of OPTS are passed at this call, and problems found."""
    owner = _owner_params(f)
    if owner is None:
        return None, ["no enclosing decorator with the six options"]
    got = {}
    probs = []
    pos = list(call.args)
    rest = pos[skip_positional:]
    expanded = []
    for a in rest:
        if isinstance(a, ast.Starred):
            d = a.value
            if isinstance(d, ast.Name):
                tv = _tuple_def(f, d.id)
                if isinstance(tv, (ast.Tuple, ast.List)):
                    expanded += list(tv.elts)
                    continue
            probs.append(f"cannot expand *{txt(a.value)}")
        else:
            expanded.append(a)
    for i, e in enumerate(expanded):
        if i >= len(OPTS):
            probs.append(f"extra positional {txt(e)}")
            break
        if isinstance(e, ast.Name) and e.id == OPTS[i]:
            got[OPTS[i]] = True
        else:
            probs.append(f"position of {OPTS[i]} receives `{txt(e)}`")
    for k in call.keywords:
        if k.arg in OPTS:
            if isinstance(k.value, ast.Name) and k.value.id == k.arg:
                got[k.arg] = True
            else:
                probs.append(f"{k.arg}={txt(k.value)}")
    missing = [o for o in OPTS if o not in got]
    if missing:
        probs.append(f"options not forwarded: {missing}")
    return got, probs


def _validate_sites(f):
    out = []
    for c in calls_in(f.node):
        if isinstance(c.func, ast.Attribute) and c.func.attr == "validate" and isinstance(c.func.value, ast.Name) \
                and c.func.value.id == "schema":
            out.append(c)
    return out


R9_SELFTEST = """
def put_back_bad(out, getter, validated):
    if isinstance(out, tuple):
        out = out[:getter] + (validated,) + out[getter + 1:]
    return out

def put_back_guarded(out, getter, validated):
    if getter < 0:
        getter = getter + len(out)
    return out[:getter] + (validated,) + out[getter + 1:]
"""


def _slice_arith_sites(fn_node, outer_params=frozenset()):
    """`X[K + 1:]` (or `X[:K] ... X[K+1:]`) with K a parameter / closure variable that is never normalised (`K % len`,
    `K + len(...)`, a `K < 0` / `K >= 0` test in the function): the slice is wrong for K == -1 (`X[0:]` is the whole X)"""
    out = []
    a = fn_node.args
    params = {x.arg for x in a.posonlyargs + a.args + a.kwonlyargs} | set(outer_params)
    assigned = {t.id for st in walk_no_nested(fn_node) if isinstance(st, (ast.Assign, ast.AugAssign))
                for t in (st.targets if isinstance(st, ast.Assign) else [st.target]) if isinstance(t, ast.Name)}
    sign_tested = set()
    for n in walk_no_nested(fn_node):
        if isinstance(n, ast.Compare) and len(n.ops) == 1 and isinstance(n.ops[0], (ast.Lt, ast.GtE, ast.Gt, ast.LtE)) and isinstance(n.left, ast.Name) \
                and isinstance(n.comparators[0], ast.Constant) and n.comparators[0].value in (0, -1):
            sign_tested.add(n.left.id)
    for n in walk_no_nested(fn_node):
        if isinstance(n, ast.Subscript) and isinstance(n.slice, ast.Slice) and isinstance(n.slice.lower, ast.BinOp) and isinstance(n.slice.lower.op, ast.Add):
            lo = n.slice.lower
            k = lo.left if isinstance(lo.left, ast.Name) else (lo.right if isinstance(lo.right, ast.Name) else None)
            one = lo.right if k is lo.left else lo.left
            if k is None or not (isinstance(one, ast.Constant) and one.value == 1):
                continue
            if k.id in params and k.id not in assigned and k.id not in sign_tested:
                out.append((n, k.id))
    return out


def r9_positional_writeback(ctx):
    """check_output / check_io accept negative positions (`obj_getter=-1`: the last element of the returned tuple).  A
    write-back that rebuilds the tuple by slice arithmetic on the un-normalised position (`out[:g] + (v,) + out[g + 1:]`)
    is wrong exactly for -1, where `out[0:]` re-appends the whole tuple: the caller gets a longer tuple that still holds
    the unvalidated object."""
    import ast as _ast
    t = _ast.parse(R9_SELFTEST)
    for nd in _ast.walk(t):
        for c in _ast.iter_child_nodes(nd):
            c._parent = nd  # type: ignore[attr-defined]
    got = {fn.name: len(_slice_arith_sites(fn)) for fn in t.body}
    if got != {"put_back_bad": 1, "put_back_guarded": 0}:
        raise AnalysisError(f"C17.R9 self-test failed: {got}")
    m = ctx.ix.module(DEC)
    n = 0
    for f in m.all_functions:
        outer = set()
        g = getattr(f, "parent", None)
        while g is not None:
            outer |= set(g.params)
            g = getattr(g, "parent", None)
        n += 1
        for node, k in _slice_arith_sites(f.node, outer):
            ctx.ob("R9", f, f"{f.short}: element `{k}` is written back at the position it was read from", False,
                   f"`{txt(node)}` slices with the un-normalised position `{k}`: for {k} == -1 this is the whole sequence, so the validated "
                   "object is inserted before a copy of the original tuple instead of replacing its last element", f.loc(node))
    ctx.ob("R9", m.all_functions[0], "no slice arithmetic on an un-normalised obj_getter position", True, f"{n} functions of decorators.py analysed")


def r10_accessor_marks_instance_only(ctx):
    """check_types skips re-validation of an object whose `.pandera.schema` equals the annotation's schema.  That mark must
    belong to the one object that was validated: the accessor keeps it on the accessor instance (`self._schema`).  Storing
    it through the data object (`df.attrs[...]`, which pandas propagates to every derived frame) makes frames *computed
    from* a validated input count as validated, and an invalid result leaves the decorated function unchecked."""
    ix = ctx.ix
    n = 0
    for mp in ("pandera/accessors/pandas_accessor.py", "pandera/accessors/polars_accessor.py"):
        m = ix.by_path.get(mp)
        if m is None:
            continue
        for c in m.classes.values():
            for name, lst in c.methods.items():
                for f in lst:
                    if f.name not in ("add_schema", "schema", "__init__"):
                        continue
                    n += 1
                    bad = []
                    for st in walk_no_nested(f.node):
                        tgts = st.targets if isinstance(st, ast.Assign) else ([st.target] if isinstance(st, (ast.AugAssign, ast.AnnAssign)) else [])
                        for t in tgts:
                            root = t
                            depth = 0
                            while isinstance(root, (ast.Attribute, ast.Subscript)):
                                root = root.value
                                depth += 1
                            if isinstance(root, ast.Name) and root.id == "self" and depth >= 2 and "_pandas_obj" in txt(t) or \
                                    (isinstance(root, ast.Name) and root.id not in ("self",) and depth >= 1 and root.id in
                                     {x.targets[0].id for x in walk_no_nested(f.node) if isinstance(x, ast.Assign) and isinstance(x.targets[0], ast.Name)
                                      and "_pandas_obj" in txt(x.value)}):
                                bad.append(st)
                        if isinstance(st, ast.Expr) and isinstance(st.value, ast.Call) and isinstance(st.value.func, ast.Attribute) \
                                and st.value.func.attr in ("update", "setdefault", "__setitem__") and "_pandas_obj" in txt(st.value.func.value):
                            bad.append(st)
                    if f.name == "schema":
                        reads = [x for x in walk_no_nested(f.node) if isinstance(x, ast.Attribute) and x.attr in ("attrs", "_pandas_obj")]
                        if reads:
                            bad.append(reads[0])
                    ctx.ob("R10", f, f"{c.name}.{f.name}: the validated-schema mark lives on the accessor instance only", not bad,
                           "reads / writes self._schema only" if not bad else
                           f"`{txt(bad[0])[:70]}` goes through the data object: metadata stored there is propagated by pandas to derived objects, "
                           "so check_types treats the *result* of a computation on a validated input as already validated", f.loc(bad[0]) if bad else None)
    ctx.stats["accessor_methods"] = n
    if n < 2:
        raise AnalysisError(f"accessor add_schema / schema methods: found {n}")


def r11_unwrap_only_optional(ctx):
    """AnnotationInfo replaces `Optional[X]` by X (the first argument) and remembers `optional`.  That unwrapping is sound
    for Optional only: applied to any Union it silently discards the other members, and check_types validates a value
    that satisfies `DataFrame[B]` against `DataFrame[A]`.  The statement that takes `get_args(...)[0]` therefore sits under
    a test of `optional`."""
    from ..cfg import cfg_of
    m = ctx.ix.module("pandera/typing/common.py")
    n = 0
    for f in m.all_functions:
        cfg = None
        for x in walk_no_nested(f.node):
            if isinstance(x, ast.Subscript) and isinstance(x.value, ast.Call) and callee_last(x.value) == "get_args" \
                    and isinstance(x.slice, ast.Constant) and x.slice.value == 0 and isinstance(getattr(x, "_parent", None), ast.Assign):
                n += 1
                cfg = cfg or cfg_of(f.node)
                node = cfg.node_of(enclosing_stmt(x))
                guards = [(txt(t), pol) for t, pol in (cfg.guards(node.id) if node is not None else [])]
                if not any("is_union_type" in g for g, _ in guards):
                    n -= 1
                    continue   # another use of get_args(...)[0] (the argument of a Literal), not the union unwrapping
                ok = any("optional" in g and pol for g, pol in guards)
                ctx.ob("R11", f, f"{f.short}: a union annotation is reduced to its first member only when it is Optional", ok,
                       f"under {[g for g, _ in guards]}" if ok else
                       f"`{txt(enclosing_stmt(x))[:60]}` is reached for any Union (guards {[g for g, _ in guards]}): Union[DataFrame[A], DataFrame[B]] is validated as DataFrame[A] only", f.loc(x))
    if n < 1:
        raise AnalysisError("typing/common.py: Optional unwrapping (get_args(...)[0]) not found")


def r12_pydantic_validate_returns_validated(ctx):
    """`check_types(with_pydantic=True)` and pydantic models receive what `pydantic_validate` returns.  That has to be the
    object `schema.validate(data)` returned (coerced, defaults filled, filtered), as plain check_types passes - returning
    the raw input after a validation run for its verdict only hands the body unparsed data."""
    from ..util import Expander
    n = 0
    for mp in ("pandera/typing/pandas.py", "pandera/typing/geopandas.py", "pandera/typing/polars.py"):
        m = ctx.ix.by_path.get(mp)
        if m is None:
            continue
        for f in m.all_functions:
            if f.name != "pydantic_validate":
                continue
            vals = [c for c in calls_in(f.node) if callee_last(c) == "validate" and isinstance(c.func, ast.Attribute)]
            if not vals:
                continue
            n += 1
            ctx.touched(f)
            ex = Expander(f.node)
            bound = set()
            for st in walk_no_nested(f.node):
                if isinstance(st, ast.Assign) and isinstance(st.value, ast.Call) and st.value in vals:
                    bound |= {t.id for t in st.targets if isinstance(t, ast.Name)}
            rets = [r.value for r in walk_no_nested(f.node) if isinstance(r, ast.Return) and r.value is not None]
            flows = bool(bound) and any(isinstance(x, ast.Name) and x.id in bound for r in rets for d in ex.closure(r) for x in ast.walk(d))
            ctx.ob("R12", f, f"{mp.split('/')[-1]}::pydantic_validate returns the validated object", flows,
                   "the result of schema.validate flows into the return value" if flows else
                   "schema.validate(data) is run for its verdict only and the raw input is returned: with coerce / defaults / strict='filter' the decorated body "
                   "gets unparsed data", f.loc(vals[0]))
    if n < 1:
        raise AnalysisError("typing: pydantic_validate with a schema.validate call not found")


def r13_positionals_not_rebuilt_from_arguments_mapping(ctx):
    """`inspect.BoundArguments.arguments` keeps a VAR_POSITIONAL parameter as ONE entry (the tuple of the extra
    positionals).  Rebuilding the positional argument list from the mapping's `.values()` therefore hands `*extra` to
    the decorated function as a single tuple: `body(df, 1, 2)` receives `extra == ((1, 2),)` under
    `check_input(schema, "df")` but `(1, 2)` under `check_input(schema)` / `check_input(schema, 0)`.  The positional
    list is rebuilt with `BoundArguments.args` (which expands it) or by replacing the designated slot only."""
    from ..util import Expander
    m = ctx.ix.module("pandera/decorators.py")
    for f in m.all_functions:
        ex = None
        for c in calls_in(f.node):
            if not (callee_last(c) == "values" and isinstance(c.func, ast.Attribute) and not c.args):
                continue
            ex = ex or Expander(f.node)
            recv = c.func.value
            src = [recv] + [d for d in ex.closure(recv)]
            from_bound = any(isinstance(x, ast.Attribute) and x.attr == "arguments" and isinstance(x.value, ast.Call)
                             and callee_last(x.value) in ("bind", "bind_partial") for d in src for x in ast.walk(d)) or \
                any(isinstance(x, ast.Attribute) and x.attr == "arguments" for d in src for x in ast.walk(d)
                    if any(isinstance(y, ast.Call) and callee_last(y) in ("bind", "bind_partial") for e in ex.closure(x) for y in ast.walk(e)))
            if not from_bound:
                continue
            ctx.touched(f)
            ctx.ob("R13", f, f"{f.short}: positional arguments are not rebuilt from `{txt(recv)}.values()`", False,
                   f"`{txt(c)}` flattens the bound-arguments mapping into the positional list: a *args parameter is one entry of that mapping, so the decorated "
                   "function receives its extra positionals as a single tuple (check_input(schema, 'df') on `def body(df, *extra)`: body(df, 1, 2) sees extra == ((1, 2),))",
                   f.loc(c))
    binds = sum(1 for f in m.all_functions for c in calls_in(f.node) if callee_last(c) in ("bind", "bind_partial"))
    ctx.ob("R13", m.all_functions[0], "decorators: every use of a bound-arguments mapping inspected", binds >= 2, f"{binds} bind / bind_partial calls inspected")
    if binds < 2:
        raise AnalysisError(f"decorators.py: signature binding sites found: {binds}")


def r14_tuple_result_keeps_its_type(ctx):
    """Apart from validation a decorated function returns exactly what the undecorated one would.  `isinstance(out, tuple)`
    also holds for every tuple *subclass* (NamedTuple results); writing the validated object back by rebuilding the result
    with the base `tuple(...)` constructor hands the caller a plain tuple (`result.frame` -> AttributeError).  On every path
    on which that test holds (if-form or early exit) a value that replaces / is returned for the result is rebuilt with
    the result's own type (`type(out)(...)`, `out._make(...)`, `out._replace(...)`)."""
    from ..util import Expander
    m = ctx.ix.module("pandera/decorators.py")
    n = 0
    for f in m.all_functions:
        tests = [t for t in ast.walk(f.node) if isinstance(t, ast.Call) and isinstance(t.func, ast.Name) and t.func.id == "isinstance" and len(t.args) == 2
                 and isinstance(t.args[0], ast.Name) and isinstance(t.args[1], ast.Name) and t.args[1].id == "tuple"]
        if not tests:
            continue
        cfg = cfg_of(f.node)
        ex = Expander(f.node)
        for var in sorted({t.args[0].id for t in tests}):
            for st in function_stmts(f):
                if isinstance(st, ast.Assign) and any(isinstance(x, ast.Name) and x.id == var for x in st.targets):
                    val = st.value
                elif isinstance(st, ast.Return) and st.value is not None:
                    val = st.value
                else:
                    continue
                if isinstance(val, ast.Name):
                    continue
                node = cfg.node_of(st)
                if node is None:
                    continue
                gs = []
                for t, pol in cfg.guards(node.id):
                    while isinstance(t, ast.UnaryOp) and isinstance(t.op, ast.Not):
                        t, pol = t.operand, not pol
                    gs.append((t, pol))
                holds = any(pol and isinstance(t, ast.Call) and isinstance(t.func, ast.Name) and t.func.id == "isinstance" and len(t.args) == 2
                            and txt(t.args[0]) == var and txt(t.args[1]) == "tuple" for t, pol in gs)
                if not holds:
                    continue
                derived = any(isinstance(x, ast.Name) and x.id == var for d in [val] + list(ex.closure(val)) for x in ast.walk(d))
                if not derived:
                    continue
                own = any((isinstance(x, ast.Call) and isinstance(x.func, ast.Name) and x.func.id == "type" and x.args and txt(x.args[0]) == var) or
                          (isinstance(x, ast.Attribute) and x.attr in ("_make", "_replace", "__class__") and txt(x.value) == var) for x in ast.walk(val))
                base = any(isinstance(x, ast.Call) and isinstance(x.func, ast.Name) and x.func.id == "tuple" for x in ast.walk(val)) or \
                    isinstance(val, (ast.Tuple, ast.BinOp))
                if not own and not base:
                    continue  # neither form: not decided here
                n += 1
                ctx.touched(f)
                ok = own and not (base and not own)
                ctx.ob("R14", f, f"{f.short}: a tuple result is rebuilt with its own type", ok,
                       f"`{txt(st)[:60]}`" if ok else
                       f"`{txt(st)[:80]}` where `isinstance({var}, tuple)` holds: a NamedTuple result comes back as a plain tuple (check_output(schema, 0) on a function "
                       "returning Result(frame, n): `out.frame` raises AttributeError, the undecorated function returns Result)", f.loc(st))
    if n < 1:
        raise AnalysisError("decorators.py: tuple result put-back not found")


def r15_variadic_bundle_recognised_by_kind(ctx):
    """In a BoundArguments.arguments mapping the values of a *args (**kwargs) parameter are bundled into one entry.
    Code that unbundles it (`mapping.popitem()` / `mapping.pop(name)` followed by per-element validation) has to know
    that the entry *is* the variadic one; the only reliable evidence is the parameter's kind.  A size comparison
    (`len(arguments) > len(named_arguments)`, `kwargs.keys() != named.keys()`) is false exactly when one star value is
    passed: check_types on `def body(x, *frames: DataFrame[S])` called `body(0, bad)` neither validates `bad` nor passes
    it as a positional - the body receives `frames == ((bad,),)`.  Decided: the guard of every unbundling site reads
    (directly, or through the local / enclosing-scope definitions of the names it uses) `Parameter.kind` / VAR_POSITIONAL /
    VAR_KEYWORD."""
    m = ctx.ix.module("pandera/decorators.py")

    def kind_evidence(node, scopes, depth=0):
        for x in ast.walk(node):
            if isinstance(x, ast.Attribute) and x.attr in ("kind", "VAR_POSITIONAL", "VAR_KEYWORD"):
                return True
        if depth >= 3:
            return False
        for nm in {x.id for x in ast.walk(node) if isinstance(x, ast.Name) and isinstance(x.ctx, ast.Load)}:
            for sc in scopes:
                for a in walk_no_nested(sc.node):
                    if isinstance(a, ast.Assign) and any(isinstance(t, ast.Name) and t.id == nm for t in a.targets):
                        if kind_evidence(a.value, scopes, depth + 1):
                            return True
        return False

    n = 0
    for f in m.all_functions:
        pops = [c for c in calls_in(f.node) if callee_last(c) in ("popitem", "pop") and isinstance(c.func, ast.Attribute) and isinstance(c.func.value, ast.Name)
                and c.func.value.id in f.params and any(("arg" in p_) for p_ in [c.func.value.id])]
        if not pops:
            continue
        scopes, g = [f], getattr(f, "parent", None)
        while g is not None:
            scopes.append(g)
            g = getattr(g, "parent", None)
        cfg = cfg_of(f.node)
        for c in pops:
            st = enclosing_stmt(c)
            node = cfg.node_of(st)
            guards = cfg.guards(node.id) if node is not None else []
            by_kind = any(kind_evidence(t, scopes) for t, _ in guards)
            by_size = [t for t, _ in guards if any(isinstance(x, ast.Call) and callee_last(x) in ("len", "keys") for x in ast.walk(t))]
            n += 1
            ctx.touched(f)
            ok = by_kind
            ctx.ob("R15", f, f"{f.short}: the variadic bundle `{txt(c)}` is recognised by the parameter's kind", ok,
                   "guarded by the parameter kind" if ok else
                   f"`{txt(c)}` is reached under `{txt(by_size[0])[:60] if by_size else 'no kind test'}`: with exactly one star value the sizes are equal, the bundle is "
                   "treated as an ordinary argument - check_types(def body(x, *frames: DataFrame[S]))(0, bad) runs the body with frames == ((bad,),), `bad` never validated", f.loc(c))
    if n < 2:
        raise AnalysisError(f"decorators.py: unbundling of a variadic argument entry found at {n} sites")


def run(ctx):
    r9_positional_writeback(ctx)
    r10_accessor_marks_instance_only(ctx)
    r11_unwrap_only_optional(ctx)
    r12_pydantic_validate_returns_validated(ctx)
    r13_positionals_not_rebuilt_from_arguments_mapping(ctx)
    r14_tuple_result_keeps_its_type(ctx)
    r15_variadic_bundle_recognised_by_kind(ctx)
    from ..defassign import check_modules
    check_modules(ctx, "R8", ('pandera/decorators.py',), "escapes the decorated call instead of the SchemaError(s)")
    ix = ctx.ix
    m = ix.module(DEC)
    funcs = {f.qual: f for f in m.all_functions}

    def F(short):
        f = funcs.get(f"{DEC}::{short}")
        if f is None:
            raise AnalysisError(f"decorators.py: {short} not found")
        ctx.touched(f)
        return f

    # ---- R6 check_types: which arguments may reach the body unvalidated ----------------------------------------
    ca = F("check_types.<_check_arg>")
    ccfg = cfg_of(ca.node)
    rd = ccfg.reaching_defs(skip_labels=("back",))   # per iteration: a failed validate of the previous Union member defines nothing
    val = ca.positional[1] if len(ca.positional) > 1 else "arg_value"
    validated_defs = {ccfg.node_of(s).id for s in function_stmts(ca) if isinstance(s, ast.Assign) and any(txt(t) == val for t in s.targets)
                      and any(callee_last(c) == "validate" for c in calls_in(s))}
    n6 = 0
    for s in function_stmts(ca):
        if not (isinstance(s, ast.Return) and isinstance(s.value, ast.Name) and s.value.id == val):
            continue
        node = ccfg.node_of(s)
        defs = rd[node.id].get(val, set())
        if defs & validated_defs:
            continue  # the value returned here went through validate on the validating path (or already carries this schema)
        n6 += 1
        pc = path_condition(ccfg, node.id)
        names, rows = pc
        none_atoms = [i for i, nme in enumerate(names) if nme == f"{val} is None"]
        opt_atoms = [i for i, nme in enumerate(names) if nme.endswith(".optional")]
        # `x is None` excludes `isinstance(x, (int, str, ...))` (NoneType / object are not in the tuple)
        inst_atoms = [i for i, nme in enumerate(names) if nme.startswith(f"isinstance({val},") and "None" not in nme and "object" not in nme]
        bad_rows = [r for r in rows if any(r[i] for i in none_atoms) and not any(r[i] for i in opt_atoms) and not any(r[i] for i in inst_atoms)]
        # a row in which the value is None and the annotation is not known to be Optional lets None reach the body
        ok = not bad_rows
        ctx.ob("R6", ca, f"unvalidated `return {val}` (line {s.lineno}) is not taken for None under a non-Optional annotation", ok,
               f"reached under {show_condition(pc)[:160]}" if ok else
               f"`return {val}` without validation is reached when `{val} is None` although the annotation is not Optional ({show_condition(pc)[:200]}): "
               "None passes a DataFrame[Model] annotation and the body runs on it", ca.loc(s))
    if n6 == 0:
        raise AnalysisError("check_types._check_arg: no pass-through return found")
    # ---- R7 coroutine detection looks through wrappers -------------------------------------------------------------
    from ..util import Expander
    n7 = 0
    for f in m.all_functions:
        ex = None
        for c in calls_in(f.node):
            if callee_last(c) == "iscoroutinefunction" and c.args:
                n7 += 1
                scopes = _closure_chain(f)
                a = c.args[0]
                seen_unwrap = False
                for g in scopes:
                    e = Expander(g.node).expand(a)
                    if any(isinstance(x, ast.Call) and callee_last(x) == "_unwrap_fn" for x in ast.walk(e)):
                        seen_unwrap = True
                    a = e
                ctx.ob("R7", f, f"`{txt(c)[:60]}` inspects the innermost function", seen_unwrap,
                       "argument goes through _unwrap_fn" if seen_unwrap else
                       "inspect.iscoroutinefunction does not follow __wrapped__: an `async def` that is already wrapped by another pandera decorator "
                       "(check_io, stacked check_input/check_output) is treated as synchronous, so the un-awaited coroutine is validated", f.loc(c))
    if n7 == 0:
        raise AnalysisError("decorators.py: no coroutine detection found")
    # ---- R1 -----------------------------------------------------------------
    n_sites = 0
    for f in m.all_functions:
        for c in _validate_sites(f):
            n_sites += 1
            got, probs = _options_passed(f, c, 1)
            branch = ""
            cfg = cfg_of(f.node)
            st = enclosing_stmt(c)
            nd = cfg.node_of(st)
            if nd is not None:
                gs = [txt(t) if p else f"not ({txt(t)})" for t, p in cfg.guards(nd.id)]
                gs = [g for g in gs if "obj_getter" in g or "obj_arg_name" in g]
                branch = " under " + " and ".join(gs) if gs else ""
            first = txt(c.args[0]) if c.args else ""
            ctx.ob("R1", f, f"schema.validate({first}, ...){branch}", not probs,
                   "all six options forwarded" if not probs else "; ".join(probs) +
                   ": the decorator's validation options are ignored on this branch", f.loc(c))
    # ---- R2 check_input --------------------------------------------------------
    w = F("check_input.<decorator>.<_wrapper>")
    cfg = cfg_of(w.node)
    calls = [c for c in calls_in(w.node) if isinstance(c.func, ast.Name) and c.func.id == "wrapped"]
    if len(calls) != 1:
        raise AnalysisError("check_input._wrapper: expected one call of wrapped(...)")
    wc = calls[0]
    wnode = cfg.node_of(enclosing_stmt(wc))
    vnodes = set()
    for c in _validate_sites(w):
        vnodes.add(cfg.node_of(enclosing_stmt(c)).id)
    path = cfg.must_pass(cfg.entry.id, {wnode.id}, vnodes, skip_labels=("exc", "fin-exc"))
    ctx.ob("R2", w, "every path to wrapped(*args, **kwargs) passes schema.validate", path is None,
           "holds on all obj_getter branches" if path is None else
           "path reaching the wrapped call without validation: " + " -> ".join(
               f"L{cfg.nodes[i].lineno}" for i in path if cfg.nodes[i].lineno), w.loc(wc))
    star = [txt(a.value) for a in wc.args if isinstance(a, ast.Starred)]
    dstar = [txt(k.value) for k in wc.keywords if k.arg is None]
    ctx.ob("R2", w, "wrapped is called with the (replaced) *args and **kwargs", star == ["args"] and dstar == ["kwargs"],
           f"called as {txt(wc)}")
    rd = cfg.reaching_defs(skip_labels=("exc", "fin-exc"))
    for c in _validate_sites(w):
        st = enclosing_stmt(c)
        ok, detail = False, f"result of validation is not stored: `{txt(st)[:70]}`"
        if isinstance(st, ast.Assign) and len(st.targets) == 1 and isinstance(st.targets[0], ast.Subscript) \
                and isinstance(st.targets[0].value, ast.Name):
            tgt = st.targets[0].value.id
            if tgt in ("args", "kwargs"):
                ok, detail = True, f"stored into {tgt}[...]"
            else:
                # e.g. pos_args[...] = validate(...); args = list(pos_args.values())
                after = cfg.reachable(cfg.node_of(st).id, skip_labels=("exc", "fin-exc"))
                # the mapping may be a view of another local (`pos_args = bound.arguments`): a store into it is
                # visible through its owner, so a conversion that reads the owner (`list(bound.args)`) counts too
                owners = {tgt}
                for n in cfg.nodes:
                    a = n.ast
                    if n.kind == "stmt" and isinstance(a, ast.Assign) and any(isinstance(t, ast.Name) and t.id == tgt for t in a.targets):
                        v = a.value
                        while isinstance(v, ast.Attribute):
                            v = v.value
                        if isinstance(v, ast.Name) and isinstance(a.value, (ast.Name, ast.Attribute)):
                            owners.add(v.id)
                conv = [n for n in cfg.nodes if n.kind == "stmt" and isinstance(n.ast, ast.Assign)
                        and any(isinstance(t, ast.Name) and t.id == "args" for t in n.ast.targets)
                        and owners & {x.id for x in ast.walk(n.ast.value) if isinstance(x, ast.Name)}]
                through = {n.id for n in conv}
                p2 = cfg.must_pass(cfg.node_of(st).id, {wnode.id}, through, skip_labels=("exc", "fin-exc"))
                if conv and p2 is None:
                    ok, detail = True, f"stored into {tgt}[...] which is converted into args before the call"
                else:
                    detail = f"validated object stored into {tgt}[...] never reaches the call arguments"
        ctx.ob("R2", w, f"validated value reaches the call: `{txt(st.targets[0]) if isinstance(st, ast.Assign) else txt(st)[:40]}`",
               ok, detail, w.loc(c))
    # ---- R3 check_output -------------------------------------------------------
    v = F("check_output.<validate>")
    cfgv = cfg_of(v.node)
    # the fenced validator (`_try_validate` today) by role: the closure of check_output whose own body calls
    # `schema.validate(...)`; it may be nested in `validate` or be its sibling
    tv = None
    for q, g in funcs.items():
        if q.startswith(f"{DEC}::check_output.") and g is not v and any(
                callee_last(c) == "validate" and isinstance(c.func, ast.Attribute) and txt(c.func.value) == "schema" for c in calls_in(g.node)):
            tv = g
            break
    if tv is None:
        raise AnalysisError("decorators.py: check_output: the closure that calls schema.validate not found")
    ctx.touched(tv)
    tv_name = tv.name
    tv_nodes = set()
    for c in calls_in(v.node):
        if callee_last(c) == tv_name:
            tv_nodes.add(cfgv.node_of(enclosing_stmt(c)).id)
    rets = [n for n in cfgv.nodes if n.kind == "stmt" and isinstance(n.ast, ast.Return)]
    for r in rets:
        p = None if r.id in tv_nodes else cfgv.must_pass(cfgv.entry.id, {r.id}, tv_nodes, skip_labels=("exc",))
        ctx.ob("R3", v, f"`{txt(r.ast)}` is preceded by validation", p is None,
               "every path passes _try_validate" if p is None else "a path returns the output without validating it",
               v.loc(r.ast))
    # value written back for int/str getters
    wb = [s for s in function_stmts(v) if isinstance(s, ast.Assign) and isinstance(s.targets[0], ast.Subscript)
          and txt(s.targets[0].slice) == "obj_getter"]
    ok = bool(wb) and all(isinstance(s.value, ast.Name) for s in wb)
    if ok:
        rdv = cfgv.reaching_defs()
        for s in wb:
            defs = rdv[cfgv.node_of(s).id].get(s.value.id, set())
            ok = ok and all(any(callee_last(c) == tv_name for c in calls_in(cfgv.nodes[d].ast)) for d in defs if cfgv.nodes[d].ast is not None)
    ctx.ob("R3", v, "indexed output is replaced by the validated object", ok,
           "out[obj_getter] = <result of _try_validate>" if ok else "validated object is not written back into the output")
    rets_tv = [s for s in function_stmts(tv) if isinstance(s, ast.Return)]
    ok = bool(rets_tv) and all(isinstance(s.value, ast.Call) and isinstance(s.value.func, ast.Attribute) and s.value.func.attr == "validate"
                               and txt(s.value.func.value) == "schema" for s in rets_tv)
    cfg_tv = cfg_of(tv.node)
    vn = {cfg_tv.node_of(enclosing_stmt(c)).id for c in _validate_sites(tv)}
    skip = cfg_tv.must_pass(cfg_tv.entry.id, {cfg_tv.exit.id}, vn, skip_labels=("exc", "fin-exc")) if vn else [0]
    ctx.ob("R3", tv, "_try_validate: every normal return is the result of schema.validate(...)", ok and skip is None,
           "returns the parsed object on every path" if ok and skip is None else
           "a path returns without calling schema.validate: a designated output reaches the caller unvalidated "
           f"(returns: {[txt(r)[:40] for r in rets_tv]})")
    for short, label in (("check_output.<decorator>.<_wrapper>", "sync"),
                         ("check_output.<decorator>.<_wrapper>.<aio_wrapper>", "async")):
        wf = F(short)
        own_rets = [s for s in function_stmts(wf) if isinstance(s, ast.Return) and s.value is not None
                    and not (isinstance(s.value, ast.Call) and callee_last(s.value) == "aio_wrapper")]
        if not own_rets:
            raise AnalysisError(f"{short}: no return")
        cf = cfg_of(wf.node)
        rdf = cf.reaching_defs()
        for s in own_rets:
            val = s.value
            ok = isinstance(val, ast.Call) and callee_last(val) == "validate"
            if not ok and isinstance(val, ast.Name):
                defs = rdf[cf.node_of(s).id].get(val.id, set())
                ok = bool(defs) and all(
                    cf.nodes[d].ast is not None and any(callee_last(c) == "validate" and isinstance(c.func, ast.Name)
                                                        for c in calls_in(cf.nodes[d].ast)) for d in defs)
            ctx.ob("R3", wf, f"{label} wrapper returns the validated output", ok,
                   "return value is the result of validate(out, fn)" if ok else
                   f"`{txt(s)}` returns the raw result: parsing (coercion, defaults) done by validate is discarded", wf.loc(s))
    # ---- R4 check_io -------------------------------------------------------------
    io = F("check_io")
    iow = F("check_io.<decorator>.<_wrapper>")
    for target in ("check_input", "check_output"):
        tf = F(target)
        want = tf.positional[2:]
        sites = [c for c in calls_in(iow.node) if isinstance(c.func, ast.Name) and c.func.id == target]
        if not sites:
            ctx.ob("R4", iow, f"check_io applies {target}", False, f"check_io never applies {target}")
            continue
        for c in sites:
            expanded = []
            probs = []
            for a in c.args[2:]:
                if isinstance(a, ast.Starred) and isinstance(a.value, ast.Name):
                    tvv = _tuple_def(iow, a.value.id)
                    if isinstance(tvv, (ast.Tuple, ast.List)):
                        expanded += [txt(e) for e in tvv.elts]
                    else:
                        probs.append(f"cannot expand *{a.value.id}")
                else:
                    expanded.append(txt(a))
            given = dict(zip(want, expanded))
            for k in c.keywords:
                if k.arg:
                    given[k.arg] = txt(k.value)
                elif isinstance(k.value, ast.Name):
                    # **options where options is a local / closure dict literal
                    dv = _tuple_def(iow, k.value.id)
                    if isinstance(dv, ast.Dict) and all(isinstance(kk, ast.Constant) for kk in dv.keys):
                        for kk, vv in zip(dv.keys, dv.values):
                            given[kk.value] = txt(vv)
                    elif isinstance(dv, ast.Call) and isinstance(dv.func, ast.Name) and dv.func.id == "dict" and not dv.args:
                        for kk in dv.keywords:
                            if kk.arg:
                                given[kk.arg] = txt(kk.value)
                    else:
                        probs.append(f"cannot expand **{k.value.id}")
            bad = [f"{p}<-{given.get(p)}" for p in OPTS if given.get(p) != p]
            ctx.ob("R4", iow, f"check_io -> {target}: options forwarded in parameter order", not bad and not probs,
                   "head, tail, sample, random_state, lazy, inplace reach the same-named parameters" if not bad and not probs
                   else "; ".join(probs + bad), iow.loc(c))
    # ---- R5 check_types -----------------------------------------------------------
    ct = F("check_types")
    partials = [c for c in calls_in(ct.node) if callee_last(c) == "partial"]
    if not partials:
        raise AnalysisError("check_types: functools.partial re-application not found")
    for c in partials:
        opts = ["with_pydantic"] + OPTS
        bad = [o for o in opts if not (isinstance(kw(c, o), ast.Name) and kw(c, o).id == o)]
        ctx.ob("R5", ct, "check_types(**options) re-application forwards every option", not bad,
               "all forwarded" if not bad else f"not forwarded by name: {bad}", ct.loc(c))
    for f in m.all_functions:
        if f.parent is ct and f.name == "_wrapper":
            ctx.touched(f)
            cf = cfg_of(f.node)
            wcalls = [c for c in calls_in(f.node) if isinstance(c.func, ast.Name) and c.func.id == "wrapped"]
            is_async = isinstance(f.node, ast.AsyncFunctionDef)
            label = "async" if is_async else "sync"
            for c in wcalls:
                star = [txt(a.value) for a in c.args if isinstance(a, ast.Starred)]
                dstar = [txt(k.value) for k in c.keywords if k.arg is None]
                ok = len(star) == 1 and len(dstar) == 1
                src = None
                if ok:
                    for s in function_stmts(f):
                        if isinstance(s, ast.Assign) and isinstance(s.targets[0], ast.Tuple) \
                                and [txt(e) for e in s.targets[0].elts] == [star[0], dstar[0]]:
                            src = s.value
                    def _last_is(call, fname, last):
                        vals = [txt(a) for a in call.args] + [txt(k.value) for k in call.keywords if k.arg]
                        return isinstance(call, ast.Call) and callee_last(call) == fname and bool(vals) and vals[-1] == last
                    ok = (isinstance(src, ast.Call) and callee_last(src) == "validate_inputs"
                          and [txt(a) for a in src.args] + [txt(k.value) for k in src.keywords if k.arg] == ["args", "kwargs"]) or \
                         (isinstance(src, ast.Tuple) and len(src.elts) == 2 and _last_is(src.elts[0], "validate_args", "args")
                          and _last_is(src.elts[1], "validate_kwargs", "kwargs"))
                ctx.ob("R5", f, f"{label} check_types wrapper calls wrapped with validated inputs", ok,
                       "wrapped(*validated_pos, **validated_kwd) from validate_inputs(args, kwargs)" if ok else
                       f"wrapped is called as `{txt(c)}`", f.loc(c))
            for s in function_stmts(f):
                if isinstance(s, ast.Return):
                    ok = isinstance(s.value, ast.Call) and callee_last(s.value) == "_check_arg" and s.value.args \
                        and isinstance(s.value.args[0], ast.Constant) and s.value.args[0].value == "return"
                    ctx.ob("R5", f, f"{label} check_types wrapper returns _check_arg('return', out)", ok,
                           "output validated against the return annotation" if ok else f"`{txt(s)}`", f.loc(s))
    # ---- R5b: per-annotation state must be created per annotation ---------------------------------------
    cfc = cfg_of(ct.node)
    rdc = cfc.reaching_defs()
    n_store = 0
    for loop in [s for s in function_stmts(ct) if isinstance(s, ast.For)]:
        inside = {id(x) for x in ast.walk(loop)}
        for st in [x for x in ast.walk(loop) if isinstance(x, ast.Assign)]:
            tg = st.targets[0]
            if isinstance(tg, ast.Subscript) and isinstance(st.value, ast.Name):
                name = st.value.id
                mutated = any(isinstance(c.func, ast.Attribute) and c.func.attr in ("append", "extend", "add", "update")
                              and isinstance(c.func.value, ast.Name) and c.func.value.id == name for c in calls_in(loop))
                if not mutated:
                    continue
                n_store += 1
                node = cfc.node_of(st)
                defs = rdc[node.id].get(name, set())
                outside = [d for d in defs if cfc.nodes[d].ast is None or id(cfc.nodes[d].ast) not in inside]
                ctx.ob("R5", ct, f"`{txt(st)[:60]}` stores a collection created in the same iteration", not outside,
                       "every definition reaching the store is inside the loop body" if not outside else
                       f"`{name}` may still be the object defined before the loop (line "
                       f"{[cfc.nodes[d].lineno for d in outside]}): it is appended to in the loop and stored for several keys, so "
                       "annotations share one list of models", ct.loc(st))
    if n_store == 0:
        ctx.notes.append("R5: no per-annotation collection store found in check_types")
    ctx.assume("inspect.signature / bind_partial semantics are not modelled: R2 shows the validated object is stored "
               "into the structure passed on, not that the index arithmetic designates the right argument")
