"""C10 - coercion either yields conforming data or names exactly the uncoercible values:
structure of the failure path."""

from __future__ import annotations

import ast

from ..cfg import handler_names
from ..effprops import engine
from ..index import AnalysisError, dotted, function_stmts, parent, walk_no_nested
from ..roles import reason_codes_in
from ..util import Expander, callee_last, calls_in, kw, names_in, txt

EXPLANATION = (
    "Static analysis of the coercion error path (ast, handler structure, annotation-typed operator lint, E5 effects; "
    "nothing executed, no value is coerced). (R1) every try_coerce implementation of the numpy, pandas and polars "
    "engines calls the type's own coerce inside a try, returns the coerced object on success, and in its broad handler "
    "raises ParserError(failure_cases=<element-wise failure-case helper>(data_container, ...)) - no path returns the "
    "uncoerced container after an exception; a ParserError raised by coerce itself is re-raised unchanged where the "
    "handler is broad enough to catch it; (R2) the element-wise helpers: numpy_pandas_coercible maps `coerce_value did "
    "not raise`; the polars helper uses a non-strict cast + is_not_null and the failure filter is the negation of that "
    "mask; (R3) every schema-level coercion site converts ParserError into SchemaError(reason_code=DATATYPE_COERCION, "
    "failure_cases=exc.failure_cases); (R4) no coerce/try_coerce implementation writes through its data_container "
    "argument; (R5) values whose declared return type is pl.LazyFrame are not combined with & | ~ (LazyFrame defines "
    "none); (R6) wherever a coerce method compares null-ness after the conversion with null-ness of its input, the two "
    "masks are combined element-wise (isna(result) & notna(input)) before any aggregation; (R7) a coerce method returns its input unchanged only under a guard that compares with the target type. (R8) definite assignment: no function of pandera/engines/ reads a local that a branch-only path from its entry leaves unassigned (CFG may-analysis, optimistic about try bodies and loop bodies, correlated guards pruned) - an UnboundLocalError there would escape coercion instead of a ParserError. " 
    " (R9) polars container coercion stays reachable when a column's name is not a frame column (the name of a regex column is a pattern): truth table of the guards of the per-column coercion call. " 
    " (R10) a pandas-engine coerce method uses Series-only accessors (.dt, .apply, .cat) on its container only under a hasattr / isinstance guard, because Index components hand a pandas Index to coerce. " 
    " R2 also requires the element predicate to catch every exception (broad handler) and the failure-case report to keep nulls (reshape_failure_cases(..., ignore_na=False)). " 
    "NOT decided: everything value-level - exactness, idempotence, agreement of coerce/coerce_value/check."
    ' (R11) in the coercion functions of the pandas backends no dtype-dropping accessor (.values, .to_numpy(), .tolist()) is applied outside the pyspark.pandas guard (zero-count rule with a positive self-test).'
    ' (R12) in the polars engine a function that null-tests the result of a non-strict cast also consults the null mask of the un-cast input, so elements that were null already are not coercion failures.'
)
LEVEL_RULE = "one obligation per try_coerce implementation / helper / schema-level site / coerce method / operator"
FLOORS = {"R1": 4, "R2": 4, "R3": 4, "R4": 20, "R5": 1, "R6": 2, "R7": 2, "R8": 1, "R9": 1, "R10": 2}

HELPERS = {"numpy_pandas_coerce_failure_cases", "polars_coerce_failure_cases", "polars_failure_cases_from_coercible"}
ENGINE_MODS = ["pandera/engines/numpy_engine.py", "pandera/engines/pandas_engine.py", "pandera/engines/polars_engine.py",
               "pandera/engines/pyarrow_engine.py", "pandera/engines/geopandas_engine.py"]


def _try_coerce_impls(ix):
    out = []
    for mp in ENGINE_MODS:
        m = ix.by_path.get(mp)
        if m is None:
            continue
        for f in m.all_functions:
            if f.name == "try_coerce" and f.cls is not None:
                out.append(f)
    return out


def r1_try_coerce(ctx):
    ix = ctx.ix
    for f in _try_coerce_impls(ix):
        ctx.touched(f)
        data = f.positional[1] if len(f.positional) > 1 else "data_container"
        tries = [t for t in walk_no_nested(f.node) if isinstance(t, ast.Try)]
        probs = []
        if not tries:
            probs.append("no try block: a failing coerce propagates the raw pandas/polars exception")
        for t in tries[:1]:
            if not any(isinstance(c.func, ast.Attribute) and c.func.attr in ("coerce", "_coerce") and txt(c.func.value) in ("self", "super()")
                       for b in t.body for c in calls_in(b)):
                probs.append("the try body does not call the type's own coerce")
            broad = [h for h in t.handlers if h.type is None or {"Exception", "BaseException", "COERCION_ERRORS"} & set(handler_names(h))]
            if not broad:
                probs.append(f"no broad handler (catches {[handler_names(h) for h in t.handlers]})")
            for h in broad:
                raises = [s for s in ast.walk(h) if isinstance(s, ast.Raise)]
                pe = [r for r in raises if isinstance(r.exc, ast.Call) and callee_last(r.exc) == "ParserError"]
                if not pe:
                    probs.append("the handler does not raise ParserError")
                for r in pe:
                    fc = kw(r.exc, "failure_cases") or (r.exc.args[1] if len(r.exc.args) > 1 else None)
                    if fc is None:
                        probs.append("ParserError raised without failure_cases")
                        continue
                    src = fc
                    if isinstance(fc, ast.Name):
                        defs = [s for s in ast.walk(h) if isinstance(s, ast.Assign) and fc.id in {n.id for tt in s.targets for n in ast.walk(tt) if isinstance(n, ast.Name)}]
                        src = defs[0].value if defs else fc
                    ok = any(isinstance(c, ast.Call) and callee_last(c) in HELPERS for c in ast.walk(src))
                    if not ok and isinstance(fc, ast.Name):
                        # failure_cases refined from an earlier helper result (e.g. .select(key))
                        ok = any(isinstance(s, ast.Assign) and any(isinstance(c, ast.Call) and callee_last(c) in HELPERS for c in ast.walk(s.value))
                                 for s in ast.walk(h))
                    if not ok:
                        probs.append(f"failure_cases=`{txt(fc)[:50]}` is not computed by an element-wise failure-case helper")
                    if r.cause is None:
                        probs.append("ParserError raised without `from exc`")
                for s in ast.walk(h):
                    if isinstance(s, ast.Return):
                        probs.append(f"the handler returns `{txt(s.value) if s.value is not None else None}`: data that failed to coerce is passed on")
                # ParserError from coerce re-raised unchanged when the handler would swallow it
                if {"Exception", "BaseException"} & set(handler_names(h)) and "pandas_engine" in f.module.path:
                    rer = any(isinstance(s, ast.If) and "ParserError" in txt(s.test) and any(isinstance(x, ast.Raise) and x.exc is None for x in s.body)
                              for s in ast.walk(h))
                    if not rer:
                        probs.append("a ParserError raised by coerce (with its own failure cases) is wrapped instead of re-raised")
            # success path returns something derived from coerce
            rets = [s for s in function_stmts(f) if isinstance(s, ast.Return) and not any(isinstance(p, ast.ExceptHandler) for p in _parents(s))]
            if not rets:
                probs.append("no return on the success path")
            for r in rets:
                if isinstance(r.value, ast.Name) and r.value.id == data:
                    probs.append("success path returns the uncoerced argument")
        ctx.ob("R1", f, f"{f.short}: failure path", not probs, "; ".join(probs) if probs else
               "try: coerce -> return; except broad: raise ParserError(failure_cases=<helper>) from exc")


def _parents(n):
    p = parent(n)
    while p is not None:
        yield p
        p = parent(p)


def r2_helpers(ctx):
    ix = ctx.ix
    u = ix.module("pandera/engines/utils.py")
    f = u.functions.get("numpy_pandas_coercible")
    if f is None:
        raise AnalysisError("numpy_pandas_coercible missing")
    ctx.touched(f)
    ex = Expander(f.node)
    rets = [ex.expand(s.value) for s in function_stmts(f) if isinstance(s, ast.Return) and s.value is not None]

    def predicate_of(a):
        """the function applied to each element: a nested / module-level function, possibly behind `lambda x: g(.., x)` or partial(g, ..)"""
        if isinstance(a, ast.Lambda) and isinstance(a.body, ast.Call):
            params = {x.arg for x in a.args.args}
            if not any(isinstance(y, ast.Name) and y.id in params for y in list(a.body.args) + [k.value for k in a.body.keywords]):
                return None
            a = a.body.func
        elif isinstance(a, ast.Call) and callee_last(a) == "partial" and a.args:
            a = a.args[0]
        if isinstance(a, ast.Name):
            return f.nested.get(a.id) or u.functions.get(a.id)
        return None

    ok = False
    detail = "no element-wise predicate"
    mapped = bool(rets)
    for r in rets:
        g = None
        if isinstance(r, ast.Call) and callee_last(r) in ("map", "apply") and isinstance(r.func, ast.Attribute) and txt(r.func.value) == f.positional[0] \
                and len(r.args) == 1 and not r.keywords:
            g = predicate_of(r.args[0])
        if g is None:
            mapped = False
            continue
        ts = [t for t in walk_no_nested(g.node) if isinstance(t, ast.Try)]
        all_rets = [x for x in walk_no_nested(g.node) if isinstance(x, ast.Return)]
        if len(ts) == 1:
            t = ts[0]
            calls_cv = any(callee_last(c) == "coerce_value" for b in t.body for c in calls_in(b))
            const = lambda x, v: isinstance(x, ast.Return) and isinstance(x.value, ast.Constant) and x.value.value is v
            after = [x for x in g.node.body[g.node.body.index(t) + 1:]] if t in g.node.body else []
            ret_true = any(const(x, True) for b in list(t.body) + list(t.orelse) + after for x in ast.walk(b))
            ret_false = bool(t.handlers) and all(any(const(x, False) for b in h.body for x in ast.walk(b)) for h in t.handlers)
            only_const = all(isinstance(x.value, ast.Constant) and isinstance(x.value.value, bool) for x in all_rets)
            false_elsewhere = any(const(x, False) for b in list(t.body) + list(t.orelse) + after for x in ast.walk(b))
            true_in_handler = any(const(x, True) for h in t.handlers for b in h.body for x in ast.walk(b))
            # coerce_value is user-extensible (custom dtypes) and numpy raises OverflowError etc.: only a broad handler makes
            # "did not raise" total - a narrowed tuple lets the other exceptions escape from the failure-case computation
            broad = any(h.type is None or set(handler_names(h)) & {"Exception", "BaseException"} for h in t.handlers)
            ok = calls_cv and ret_true and ret_false and only_const and not false_elsewhere and not true_in_handler and broad
            detail = (f"coerce_value called: {calls_cv}; True on success: {ret_true and not false_elsewhere}; False on exception: "
                      f"{ret_false and not true_in_handler}; every exception caught: {broad}")
    ctx.ob("R2", f, "numpy_pandas_coercible(x) == `coerce_value(x)` does not raise, element-wise", ok and mapped,
           detail + (f"; returned as {f.positional[0]}.map(predicate)" if mapped else
                     f"; the returned flags are `{txt(rets[0])[:80] if rets else None}`, not the plain element-wise map: elements whose "
                     "coerce_value fails can be reported coercible (or vice versa), so the failure cases no longer equal the uncoercible elements"))
    g = u.functions.get("numpy_pandas_coerce_failure_cases")
    ctx.touched(g)
    uses = [c for c in calls_in(g.node) if callee_last(c) == "postprocess"]
    gx = Expander(g.node)
    def _flags(e):
        return any(isinstance(x, ast.Name) and x.id == "numpy_pandas_coercible" for d in gx.closure(e) for x in ast.walk(d))
    ok = len(uses) >= 1 and all(len(c.args) == 2 and _flags(c.args[1]) and g.positional[0] in names_in(gx.expand(c.args[0])) for c in uses)
    ign = any(callee_last(c) == "Check" and isinstance(kw(c, "ignore_na"), ast.Constant) and kw(c, "ignore_na").value is False for c in calls_in(g.node))
    ctx.ob("R2", g, "failure cases are the elements whose coercible flag is False (nulls not ignored)", ok and ign,
           f"postprocess(data_container, check_output) x{len(uses)}; stub check ignore_na=False: {ign}")
    # the report of uncoercible elements keeps nulls: reshape_failure_cases drops them unless told otherwise
    for c in [c for c in calls_in(g.node) if callee_last(c) == "reshape_failure_cases"]:
        v = kw(c, "ignore_na") or (c.args[1] if len(c.args) > 1 else None)
        okn = isinstance(v, ast.Constant) and v.value is False
        ctx.ob("R2", g, "failure cases of a coercion keep null elements (reshape_failure_cases(..., ignore_na=False))", okn,
               "ignore_na=False" if okn else
               f"`{txt(c)[:60]}` uses the helper's default ignore_na=True: a null coerced to a type that cannot hold it (NaN -> int64) is dropped from the "
               "failure cases, the ParserError names nothing (failure_cases=None)", g.loc(c))
    pe = ix.module("pandera/engines/polars_engine.py")
    h = pe.functions.get("polars_object_coercible")
    ctx.touched(h)
    casts = [c for c in calls_in(h.node) if callee_last(c) == "cast"]
    ok = any(isinstance(kw(c, "strict"), ast.Constant) and kw(c, "strict").value is False for c in casts) and \
        any(callee_last(c) == "is_not_null" for c in calls_in(h.node))
    ctx.ob("R2", h, "polars_object_coercible = non-strict cast then is_not_null", ok, "cast(strict=False) + is_not_null" if ok else "different construction")
    k = pe.functions.get("polars_failure_cases_from_coercible")
    ctx.touched(k)
    filt = [c for c in calls_in(k.node) if callee_last(c) == "filter"]
    ok = any(any(callee_last(x) == "not_" for x in calls_in(c)) for c in filt)
    ctx.ob("R2", k, "polars failure cases = rows where the coercible mask is False", ok, "filter(mask.not_())" if ok else "filter does not negate the mask")


SITE_DIRS = ("pandera/backends/pandas/", "pandera/backends/polars/")
SITE_FLOOR = 4  # confirmed by reading: pandas array coerce_dtype, pandas container _coerce_df_dtype, polars container helper, polars column


def _coercion_sites(ix):
    """Schema-level users of try_coerce, found by role: a backend function that mentions `try_coerce` (attribute or the
    name handed to getattr) and either already converts ParserError or passes one of its own parameters (the data under
    validation) to it.  (add_missing_columns coerces a freshly built default-value Series, not the validated data.)"""
    out = []
    for m in ix.modules.values():
        if not m.path.startswith(SITE_DIRS):
            continue
        for f in m.all_functions:
            mention = [n for n in walk_no_nested(f.node)
                       if (isinstance(n, ast.Attribute) and n.attr == "try_coerce") or (isinstance(n, ast.Constant) and n.value == "try_coerce")]
            if not mention:
                continue
            handled = any("ParserError" in handler_names(h) for t in walk_no_nested(f.node) if isinstance(t, ast.Try) for h in t.handlers)
            params = set(f.positional)
            direct = any(isinstance(c.func, ast.Attribute) and c.func.attr == "try_coerce" and c.args and isinstance(c.args[0], ast.Name)
                         and c.args[0].id in params for c in calls_in(f.node))
            if handled or direct:
                out.append(f)
    return out


def r3_schema_level(ctx):
    ix = ctx.ix
    sites = _coercion_sites(ix)
    ctx.stats["schema_level_coercion_sites"] = len(sites)
    if len(sites) < SITE_FLOOR:
        g = ix.module("pandera/backends/pandas/container.py").all_functions[0]
        ctx.ob("R3", g, "schema-level coercion sites", False,
               f"only {len(sites)} backend functions convert the ParserError of try_coerce ({', '.join(x.short for x in sites)}); "
               f"{SITE_FLOOR} were confirmed: a site lost its `except ParserError`")
    for f in sites:
        ctx.touched(f)
        hs = [h for t in walk_no_nested(f.node) if isinstance(t, ast.Try) for h in t.handlers if "ParserError" in handler_names(h)]
        if not hs:
            ctx.ob("R3", f, f"{f.short}: ParserError -> SchemaError", False, "no `except ParserError` around try_coerce: the parser error escapes validate")
            continue
        for h in hs:
            se = [c for c in calls_in(h) if callee_last(c) == "SchemaError"]
            probs = []
            if not se:
                probs.append("handler builds no SchemaError")
            for c in se:
                rc = kw(c, "reason_code")
                if rc is None or "DATATYPE_COERCION" not in reason_codes_in(rc):
                    probs.append("reason_code is not DATATYPE_COERCION")
                fc = kw(c, "failure_cases")
                if fc is None or not (isinstance(fc, ast.Attribute) and fc.attr == "failure_cases" and isinstance(fc.value, ast.Name) and fc.value.id == h.name):
                    probs.append("failure_cases of the ParserError are not handed over" if fc is None else f"failure_cases={txt(fc)}")
            ctx.ob("R3", f, f"{f.short}: ParserError -> SchemaError(DATATYPE_COERCION, failure_cases=exc.failure_cases)", not probs,
                   "converted with its failure cases" if not probs else "; ".join(probs), f.loc(h))


def r4_no_write(ctx):
    ix = ctx.ix
    eng = engine(ix)
    n = 0
    for mp in ENGINE_MODS:
        m = ix.by_path.get(mp)
        if m is None:
            continue
        for f in m.all_functions:
            if f.name not in ("coerce", "try_coerce", "_coerce") or f.cls is None or len(f.positional) < 2:
                continue
            n += 1
            data = f.positional[1]
            effs = [e for e in eng.summary(f).effects if e.root == ("P", data) and e.kind == "write"
                    and not any(p.startswith("[") for p in e.path[:-1])]
            ctx.ob("R4", f, f"{f.cls.name}.{f.name} does not write through `{data}`", not effs,
                   "no write reaches the argument" if not effs else
                   "; ".join(f"`{e.site[2]}` at {e.site[0].split('::')[0]}:{e.site[1]}" for e in effs[:3]))
    ctx.stats["coerce_methods"] = n


def _returns_lazyframe(ix, f, call):
    r = None
    fn = call.func
    if isinstance(fn, ast.Name):
        r = ix.resolve_name(f.module, fn.id, f)
    elif isinstance(fn, ast.Attribute) and txt(fn.value) == "self" and f.cls is not None:
        name = fn.attr
        if name.startswith("__") and not name.endswith("__"):
            pass
        g = f.cls.lookup(name)
        r = ("func", g) if g is not None else None
    if r and r[0] == "func":
        ann = r[1].node.returns
        return ann is not None and txt(ann).endswith("LazyFrame")
    return False


def r5_operator_lint(ctx):
    ix = ctx.ix
    m = ix.module("pandera/engines/polars_engine.py")
    n = 0
    for f in m.all_functions:
        for b in walk_no_nested(f.node):
            ops = []
            if isinstance(b, ast.BinOp) and isinstance(b.op, (ast.BitAnd, ast.BitOr)):
                ops = [b.left, b.right]
            elif isinstance(b, ast.UnaryOp) and isinstance(b.op, ast.Invert):
                ops = [b.operand]
            lf = [o for o in ops if isinstance(o, ast.Call) and _returns_lazyframe(ix, f, o)]
            if ops:
                n += 1
                ctx.ob("R5", f, f"`{txt(b)[:70]}`", not lf,
                       "operands are expressions/series" if not lf else
                       f"operand(s) {[txt(o.func) for o in lf]} are declared `-> pl.LazyFrame`; LazyFrame defines no & | ~, so this raises "
                       "TypeError inside the coercion failure handler and the ParserError is never produced", f.loc(b))
    if n == 0:
        ctx.ob("R5", m.path, "no boolean operator over frames in polars_engine", True, "nothing to check")


def _null_masks(e, data):
    """(masks of the coerced object, masks of the input) among the .isna()/.notna() calls in `e`."""
    co, inp = [], []
    for c in ast.walk(e):
        if isinstance(c, ast.Call) and isinstance(c.func, ast.Attribute) and c.func.attr in ("isna", "isnull", "notna", "notnull") and not c.args:
            (inp if data in names_in(c.func.value) and not any(isinstance(x, ast.Call) and callee_last(x) in ("astype", "coerce", "_coerce", "map", "apply")
                                                             for x in ast.walk(c.func.value)) else co).append(c)
    return co, inp


def r6_new_nulls(ctx):
    """A coercion that turns unconvertible values into nulls must detect them element-wise: null after AND not null before."""
    ix = ctx.ix
    n = 0
    for mp in ENGINE_MODS:
        m = ix.by_path.get(mp)
        if m is None:
            continue
        for f in m.all_functions:
            if f.name not in ("coerce", "try_coerce", "_coerce") or f.cls is None or len(f.positional) < 2:
                continue
            data = f.positional[1]
            ex = Expander(f.node)
            seen = set()
            for s in function_stmts(f):
                cands = []
                if isinstance(s, ast.If):
                    cands.append(s.test)
                elif isinstance(s, ast.Assign):
                    cands.append(s.value)
                for c0 in cands:
                    e = ex.expand(c0)
                    co, inp = _null_masks(e, data)
                    if not co or not inp:
                        continue
                    key = txt(e)
                    if key in seen:
                        continue
                    seen.add(key)
                    n += 1
                    joint = [b for b in ast.walk(e) if isinstance(b, ast.BinOp) and isinstance(b.op, ast.BitAnd)
                             and any(x in list(ast.walk(b)) for x in co) and any(x in list(ast.walk(b)) for x in inp)]
                    aggs = [a for a in ast.walk(e) if isinstance(a, ast.Call) and callee_last(a) in ("any", "all") and isinstance(a.func, ast.Attribute)]
                    split = [a for a in aggs if not any(j in list(ast.walk(a)) for j in joint)
                             and (any(x in list(ast.walk(a)) for x in co) or any(x in list(ast.walk(a)) for x in inp))]
                    ok = bool(joint) and not split
                    ctx.ob("R6", f, f"{f.cls.name}.{f.name}: values nulled by the conversion are detected element-wise", ok,
                           "null-after & not-null-before combined per element before any aggregation" if ok else
                           f"`{txt(c0)[:90]}` aggregates the null masks of the result and of the input separately: a container that already "
                           "holds a null hides every value the conversion silently turned into null", f.loc(s))
    ctx.stats["new_null_detectors"] = n


def r7_identity_shortcut(ctx):
    """coerce may hand its input back unchanged only when the input already has exactly the target type: the guard of an
    identity return has to compare with the target (self.type / self.check / the target's parameters), not merely test
    that the input is of the same family."""
    from ..cfg import cfg_of
    from ..util import path_condition, show_condition
    ix = ctx.ix
    n = 0
    for mp in ENGINE_MODS:
        m = ix.by_path.get(mp)
        if m is None:
            continue
        for f in m.all_functions:
            if f.name not in ("coerce", "_coerce") or f.cls is None or len(f.positional) < 2:
                continue
            data = f.positional[1]
            ex = Expander(f.node)
            cfg = None
            for s in function_stmts(f):
                if not isinstance(s, ast.Return) or s.value is None:
                    continue
                v = ex.expand(s.value)
                same = (isinstance(v, ast.Name) and v.id == data) or \
                       (isinstance(v, ast.Attribute) and isinstance(v.value, ast.Name) and v.value.id == data and v.attr in ("lazyframe", "dataframe"))
                if not same:
                    continue
                # a re-bound parameter (data = data.astype(...)) is not the input any more
                rebinds = [a for a in function_stmts(f) if isinstance(a, ast.Assign) and any(isinstance(t, ast.Name) and t.id == data for t in a.targets)
                           and any(isinstance(c, ast.Call) and callee_last(c) in ("astype", "cast", "with_columns", "map", "apply", "coerce", "_coerce", "convert_dtypes")
                                   for c in ast.walk(a.value))]
                cfg = cfg or cfg_of(f.node)
                rd = cfg.reaching_defs()
                node = cfg.node_of(s)
                if any(cfg.node_of(a).id in rd[node.id].get(data, set()) for a in rebinds):
                    continue
                n += 1
                pc = path_condition(cfg, node.id, expand=ex)
                target = [a for a in pc[0] if "self." in a or "self)" in a]
                ok = bool(target) or not pc[0] and not any(isinstance(c, ast.Call) for c in ast.walk(f.node) if isinstance(c, ast.Call) and callee_last(c) in ("astype", "cast"))
                ctx.ob("R7", f, f"{f.cls.name}.{f.name}: unchanged input is returned only when it already has the target type", ok,
                       f"identity under {show_condition(pc)[:120]}" if ok else
                       f"`return {txt(s.value)}` hands the input back under {show_condition(pc)[:160]}, a condition that never looks at the target "
                       "type: data of the same family but another parameterisation (precision/scale, unit, categories) is returned un-coerced, so the "
                       "result fails the type's own check and unrepresentable values go unreported", f.loc(s))
    ctx.stats["identity_returns"] = n


def r9_polars_container_coverage(ctx):
    """polars container coercion (`_coerce_dtype_helper`): a column schema is addressed through its selector, and the
    `name` of a regex column is a pattern, not a frame column.  Coercion may therefore be skipped for an *optional*
    column whose name is not in the frame, but it must stay reachable when the name is not a frame column (required /
    regex columns) - otherwise pattern-selected columns are never coerced and coercible data is rejected."""
    from ..cfg import cfg_of
    from ..expand import expanded
    from ..flow import FlowExpander
    from ..util import enclosing_stmt, path_condition, show_condition
    ix = ctx.ix
    m = ix.module("pandera/backends/polars/container.py")
    n = 0
    for f0 in m.all_functions:
        if f0.name != "_coerce_dtype_helper":
            continue
        f = expanded(ix, f0)
        ctx.touched(f0)
        fx = FlowExpander(f.node)
        for c in calls_in(f.node):
            # the per-column coercion call: getattr(col_schema.dtype, fn)(PolarsData(obj, col_schema.selector)) or <dtype>.try_coerce/coerce(...)
            if not any(isinstance(a, ast.Call) and callee_last(a) == "PolarsData" for a in c.args):
                continue
            n += 1
            node = fx.cfg.node_of(enclosing_stmt(c))
            pc = path_condition(fx.cfg, node.id, expand=fx, keep=lambda t, nn: " in " in t and ".name" in t)
            names, rows = pc
            ok = not names or any(not all(r) for r in rows)
            ctx.ob("R9", f0, "polars container: coercion of a column does not require its name to be a frame column", ok,
                   f"reached under {show_condition(pc)}" if ok else
                   f"coercion is applied only under {show_condition(pc)}: the name of a regex column is a pattern and never a frame column, so "
                   "pattern-selected columns are silently not coerced (coercible data is rejected with a dtype error, uncoercible data yields no "
                   "coercion failure cases)", f0.loc(c))
    ctx.stats["polars_container_coercion_calls"] = n
    if n < 1:
        raise AnalysisError("polars container _coerce_dtype_helper: per-column coercion call not found")


SERIES_ONLY = {"dt", "apply", "cat", "sparse"}


def r10_coerce_accepts_an_index(ctx):
    """Index components are coerced by handing the pandas Index itself to the dtype's coerce (IndexBackend /
    MultiIndexBackend call `schema.coerce_dtype(check_obj.index)`).  `.dt`, `.apply`, `.cat` exist on a Series but not on
    an Index, so a coerce method may use them on its container only under a guard (`hasattr(x, "dt")`, isinstance Series /
    Index): unguarded, coercing an already conforming Index of dates / decimals raises AttributeError, which try_coerce
    turns into a coercion error with failure_cases=None."""
    from ..cfg import cfg_of
    from ..util import enclosing_stmt
    m = ctx.ix.module("pandera/engines/pandas_engine.py")
    n = 0
    for f in m.all_functions:
        root = f
        while getattr(root, "parent", None) is not None:
            root = root.parent
        if root.name not in ("coerce", "_coerce") or root.cls is None:
            continue
        if len(f.positional) < 1:
            continue
        cont = {p for p in f.params if p not in ("self", "cls", "pandas_dtype", "value")}
        if not cont:
            continue
        ex = Expander(f.node)
        cfg = None
        for x in walk_no_nested(f.node):
            if not (isinstance(x, ast.Attribute) and x.attr in SERIES_ONLY and isinstance(x.ctx, ast.Load)):
                continue
            base = x.value
            names = {y.id for d in ex.closure(base) for y in ast.walk(d) if isinstance(y, ast.Name)}
            if not (names & cont):
                continue
            n += 1
            cfg = cfg or cfg_of(f.node)
            st = enclosing_stmt(x)
            node = cfg.node_of(st)
            guards = [txt(t) for t, pol in (cfg.guards(node.id) if node is not None else [])]
            par = getattr(x, "_parent", None)
            while par is not None and par is not st:
                if isinstance(par, ast.IfExp):
                    guards.append(txt(par.test))
                par = getattr(par, "_parent", None)
            guarded = any(("hasattr(" in g and f"'{x.attr}'" in g.replace('"', "'")) or "isinstance(" in g for g in guards)
            ctx.ob("R10", f, f"{f.short}: `.{x.attr}` on the container only where it is a Series", guarded,
                   f"guarded by {guards}" if guarded else
                   f"`{txt(x)[:50]}` assumes a Series: Index(<this dtype>, coerce=True) hands a pandas Index to coerce, `.{x.attr}` raises AttributeError and the "
                   "already conforming index is reported as uncoercible (failure_cases=None)", f.loc(x))
    ctx.stats["series_only_accessors_in_coerce"] = n
    if n < 2:
        raise AnalysisError(f"pandas_engine coerce methods: expected Series-only accessor uses (DateTime .dt ...), found {n}")


DTYPE_DROPPING = {"values", "to_numpy", "tolist", "to_list"}
SELFTEST_DTYPE_DROPPING = """
import pandas as pd
class B:
    def coerce_dtype_bad(self, check_obj, schema):
        coerced = {i: schema.coerce(check_obj.get_level_values(i)) for i in range(check_obj.nlevels)}
        return pd.MultiIndex.from_arrays([v.values for v in coerced.values()], names=check_obj.names)
    def coerce_dtype_ok(self, check_obj, schema):
        coerced = {i: schema.coerce(check_obj.get_level_values(i)) for i in range(check_obj.nlevels)}
        return pd.MultiIndex.from_arrays([v.to_numpy() if type(v).__module__.startswith("pyspark.pandas") else v.array for v in coerced.values()])
"""


def r11_coerced_data_keeps_its_dtype(ctx, ix=None):
    """Coercing an already conforming container is the identity, and whatever coercion returns has the declared dtype.
    `.values` / `.to_numpy()` / `.tolist()` hand back a plain numpy array / list: a time-zone-aware level becomes naive
    UTC, extension dtypes (Int64, category, string) become object.  In the coercion functions of the pandas backends data
    on its way to the returned object therefore never passes through such an accessor; the only accepted use is the one
    guarded by the `pyspark.pandas` module test (pyspark.pandas has no `.array`)."""
    if ix is None:
        from ..index import Index

        class _S:
            def __init__(self):
                self.obs, self.stats = [], {}

            def ob(self, rule, f, construct, ok, detail, loc=None):
                self.obs.append((f.name, ok))

            def touched(self, f):
                pass
        sink = _S()
        r11_coerced_data_keeps_its_dtype(sink, Index.from_sources({"pandera/backends/pandas/_selftest.py": SELFTEST_DTYPE_DROPPING}))
        if sorted(set(sink.obs)) != [("coerce_dtype_bad", False), ("coerce_dtype_ok", True)]:
            raise AnalysisError(f"dtype-dropping accessor self-test failed: {sink.obs}")
    selftest = ix is not None
    ix = ix or ctx.ix
    n = 0
    for m in ix.modules.values():
        if not m.path.startswith("pandera/backends/pandas/"):
            continue
        for f in m.all_functions:
            if "coerce" not in f.name:
                continue
            for x in walk_no_nested(f.node):
                acc = None
                if isinstance(x, ast.Attribute) and x.attr == "values" and isinstance(x.ctx, ast.Load) and not (
                        isinstance(getattr(x, "_parent", None), ast.Call) and x._parent.func is x):
                    acc = x
                elif isinstance(x, ast.Call) and isinstance(x.func, ast.Attribute) and x.func.attr in DTYPE_DROPPING - {"values"}:
                    acc = x
                if acc is None:
                    continue
                guards, child, p_ = [], acc, getattr(acc, "_parent", None)
                while p_ is not None and p_ is not f.node:
                    if isinstance(p_, ast.IfExp) and child is p_.body:
                        guards.append(txt(p_.test))
                    if isinstance(p_, ast.If) and child in p_.body:
                        guards.append(txt(p_.test))
                    child, p_ = p_, getattr(p_, "_parent", None)
                ok = any("pyspark" in g for g in guards)
                n += 1
                ctx.touched(f)
                ctx.ob("R11", f, f"{f.short}: `{txt(acc)[:40]}` (drops the dtype) only for pyspark.pandas objects", ok,
                       "guarded by the pyspark.pandas module test" if ok else
                       f"`{txt(acc)}` turns the coerced data into a plain numpy array / list: a datetime64[ns, UTC] MultiIndex level comes back as naive datetime64[ns] "
                       "(Int64 / category / string levels as object), so coercing a conforming frame changes it and the schema then reports a wrong dtype", f.loc(acc))
    if not selftest:
        ctx.stats["dtype_dropping_accessors_in_coercion"] = n


def _receiver_chain(e):
    """the calls / attributes an expression is chained on (`a.b(x).c(y)` -> a.b(x).c(y), a.b(x), a.b, a), arguments excluded"""
    while e is not None:
        yield e
        if isinstance(e, ast.Call):
            e = e.func
        elif isinstance(e, ast.Attribute):
            e = e.value
        else:
            e = None


def r12_polars_new_nulls_compare_with_the_input(ctx):
    """polars finds the uncoercible elements by casting non-strictly and asking which results are null.  Every polars
    dtype can hold null, so an element that was null *before* the cast is not a failure: the "coercible" mask has to
    consult the null mask of the un-cast input as well (`is_null() | cast(strict=False).is_not_null()`).  Without it
    Column(pl.Int64, nullable=True, coerce=True) blames the None in ["1", None, "x"] and drop_invalid_rows deletes that
    valid row."""
    m = ctx.ix.module("pandera/engines/polars_engine.py")
    n = 0
    for f in m.all_functions:
        casts = [c for c in calls_in(f.node) if callee_last(c) == "cast" and any(k.arg == "strict" and isinstance(k.value, ast.Constant) and k.value.value is False
                                                                                  for k in c.keywords)]
        if not casts:
            continue
        null_tests = [c for c in calls_in(f.node) if callee_last(c) in ("is_not_null", "is_null")]
        if not null_tests:
            continue
        n += 1
        ctx.touched(f)

        def over_cast(c):
            # is the null test applied to (something derived from) the non-strict cast?
            recv = c.func.value if isinstance(c.func, ast.Attribute) else None
            if recv is not None and any(x in casts for x in _receiver_chain(recv)):
                return True
            # `<frame>.cast(strict=False).select(pl.col(key).is_not_null())`: the test sits in a select on the cast frame
            p_, child = getattr(c, "_parent", None), c
            while p_ is not None and not isinstance(p_, ast.stmt):
                child_is_arg = isinstance(p_, ast.Call) and (child in p_.args or any(child is k.value for k in p_.keywords))
                if isinstance(p_, ast.Call) and callee_last(p_) in ("select", "with_columns", "filter") and isinstance(p_.func, ast.Attribute) \
                        and child_is_arg and any(x in casts for x in _receiver_chain(p_.func.value)):
                    return True
                child, p_ = p_, getattr(p_, "_parent", None)
            return False
        after = [c for c in null_tests if over_cast(c)]
        before = [c for c in null_tests if not over_cast(c)]
        ok = not after or bool(before)
        ctx.ob("R12", f, f"{f.short}: null-after-the-cast is compared with null-before", ok,
               "the input's null mask is consulted" if ok else
               f"`{txt(after[0])[:60]}` alone decides coercibility: an element that is null in the input is reported as uncoercible "
               "(pl.DataFrame({'a': ['1', None, 'x']}) with Column(pl.Int64, nullable=True, coerce=True): failure cases [None, 'x'])", f.loc(after[0] if after else casts[0]))
    if n < 1:
        raise AnalysisError("polars_engine: non-strict cast with a null test not found")


def run(ctx):
    from ..defassign import check_modules
    check_modules(ctx, "R8", ('pandera/engines/',), "escapes coercion instead of a ParserError / coerced data")
    r1_try_coerce(ctx)
    r2_helpers(ctx)
    r3_schema_level(ctx)
    r4_no_write(ctx)
    r5_operator_lint(ctx)
    r6_new_nulls(ctx)
    r9_polars_container_coverage(ctx)
    r10_coerce_accepts_an_index(ctx)
    r11_coerced_data_keeps_its_dtype(ctx)
    r12_polars_new_nulls_compare_with_the_input(ctx)
    r7_identity_shortcut(ctx)
    ctx.assume("astype/cast of pandas/polars return new objects")
