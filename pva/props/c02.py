"""C02 - lazy and eager validation agree; the error report is exact."""

from __future__ import annotations

import ast

from ..callgraph import CallGraph, RaiseSets, caught_classes, handler_reraises
from ..cfg import cfg_of, handler_names
from ..effprops import engine
from ..index import AnalysisError, function_stmts, parent, walk_no_nested
from ..roles import schema_backend_classes
from ..util import assignment_leaves, callee_last, calls_in, enclosing_stmt, ifexp_chain, kw, names_in, path_condition, resolve_local, show_condition, txt

EXPLANATION = (
    "Static analysis of the error plumbing (CFG must-pass-through, handler census, raise-sets over the resolved call "
    "graph; nothing executed). (R1) ErrorHandler.collect_error: eager mode raises the very error object it was given "
    "before any other effect; in lazy mode every non-raising path appends exactly once to both the schema-error list "
    "and the summary list; (R2) no schema error is swallowed: every `except SchemaError/SchemaErrors` handler in the "
    "pandas and polars backends forwards the caught error(s) to collect_error(s), re-raises, wraps them in a "
    "CoreCheckResult / new SchemaError(s), with a frozen table of the legitimate empty handlers; (R3) `lazy` only "
    "selects raise-now versus collect: every use of the lazy flag in the backends is one of the enumerated kinds; (R4) "
    "every backend validate that owns an ErrorHandler reaches its normal return only through the collected_errors test "
    "whose true branch raises SchemaErrors(schema_errors=error_handler.schema_errors) or drops rows; (R5) error_counts "
    "is one increment per collected error keyed by reason code and both backends derive the check identifier by the "
    "same chain; (R6) where a parsing call is fenced by `except E`, every schema exception class in the raise-set of "
    "the resolved callees is caught by E; (R7) every site writing the `column` key of reported failure cases takes the "
    "component name as is - None tests only, never a truthiness fallback (names 0 / '' are legal). (R8) every regex-matched column is validated against its own renamed schema copy, so collected errors name their own column; (R9) pandas consolidate_failure_cases attributes a tabular case to its own `column` label, then the error's column_name, then the schema name, and the ErrorHandler accessors hand out exactly what was collected. " 
    " (R10) a handler that collects an error and carries on sits inside the loop over the validated elements (a single try around the whole loop ends it at the first failure, so later failures never reach the lazy report). " 
    " (R11) an API-level validate that validates two parts in sequence (SeriesSchema: values, then index) fences the first call, so that the second part still runs and both are reported in lazy mode. " 
    " (R12) every per-error frame of the polars report casts failure_case to the common string type before pl.concat. " 
    "NOT decided: equality of failure_cases with the set of offending cells."
    ' R2 follows helpers that are closures of the function or of an enclosing one.'
)
LEVEL_RULE = "one obligation per handler / lazy use / validate method / fenced call"
FLOORS = {"R1": 4, "R2": 20, "R3": 12, "R4": 6, "R5": 3, "R6": 6, "R7": 5, "R8": 1, "R9": 3, "R10": 1, "R11": 1, "R12": 2}

EH = "pandera/api/base/error_handler.py::ErrorHandler"
# A handler may drop the caught SchemaError only when the fenced body does nothing but expand a regex column name:
# "regex column without a match" is not an error of the container (nothing to collect / coerce); the component's own
# validation reports it.  Recognised by what the try body calls, not by how the handler is spelled.
REGEX_EXPANSION_CALLS = {"get_regex_columns", "get_backend", "extend", "append", "Index", "list"}


def _only_regex_expansion(t: ast.Try) -> bool:
    called = {callee_last(c) for b in t.body for c in calls_in(b, nested=True)}
    return "get_regex_columns" in called and called <= REGEX_EXPANSION_CALLS


def r1_collect_error(ctx):
    ix = ctx.ix
    eh = ix.cls(EH)
    f = eh.method("collect_error")
    if f is None:
        raise AnalysisError("ErrorHandler.collect_error missing")
    ctx.touched(f)
    cfg = cfg_of(f.node)
    err_param = "schema_error" if "schema_error" in f.params else f.positional[3]
    # eager raise of the same object, reached exactly when the handler is not lazy, before any write to self
    lazy_atom = lambda t, n: "_lazy" in t or t.endswith(".lazy")
    raises = [s for s in function_stmts(f) if isinstance(s, ast.Raise)]
    same = [s for s in raises if isinstance(s.exc, ast.Name) and s.exc.id == err_param]
    first = None
    ok = pol_ok = False
    for s in same:
        names_, sat = path_condition(cfg, cfg.node_of(s).id, keep=lazy_atom)
        if len(names_) == 1 and sat == frozenset({(False,)}):
            ok = pol_ok = True
            first = s
    writes_self = []
    for s in function_stmts(f):
        is_w = any(isinstance(t, (ast.Attribute, ast.Subscript)) for t in (getattr(s, "targets", None) or ([s.target] if isinstance(s, (ast.AugAssign, ast.AnnAssign)) else []))) \
            or any(callee_last(c) in ("append", "extend", "update", "add", "insert", "setdefault", "pop", "clear") for c in calls_in(s)) if not isinstance(s, (ast.If, ast.For, ast.While, ast.Try, ast.With)) else False
        if is_w:
            writes_self.append(s)
    early = []
    for s in writes_self:
        names_, sat = path_condition(cfg, cfg.node_of(s).id, keep=lazy_atom)
        if not (len(names_) == 1 and sat == frozenset({(True,)})):
            early.append(s)
    ok = ok and not early
    ctx.ob("R1", f, "eager mode raises the given error object before any other effect", ok and pol_ok,
           f"`raise {err_param}` is reached exactly when the handler is not lazy; every write happens only in lazy mode" if ok and pol_ok else
           (f"a write (`{txt(early[0])[:60]}`) can happen in eager mode" if early else f"no `raise {err_param}` reached exactly under `not lazy`"))
    appends = {}
    for s in function_stmts(f):
        for c in calls_in(s):
            if callee_last(c) == "append" and isinstance(c.func.value, ast.Attribute):
                appends.setdefault(c.func.value.attr, []).append(cfg.node_of(enclosing_stmt(c)).id)
    exits = {cfg.exit.id}
    for attr in ("_schema_errors", "_collected_errors"):
        nodes = set(appends.get(attr, []))
        if not nodes:
            ctx.ob("R1", f, f"lazy mode appends to self.{attr}", False, "never appended: collected errors are lost")
            continue
        # skip the eager branch: start after the first statement's False edge
        # every path from entry to the normal exit passes an append (paths ending in the eager raise never reach the exit)
        bypass = None
        if cfg.entry.id not in nodes:
            bypass = cfg.must_pass(cfg.entry.id, exits, nodes, skip_labels=("exc", "fin-exc"))
        once = len(nodes) == 1 and not any(isinstance(parent(cfg.nodes[n].ast), (ast.For, ast.While)) for n in nodes)
        ctx.ob("R1", f, f"lazy mode appends exactly once to self.{attr} on every path", bypass is None and once,
               "must-pass-through holds, single append outside loops" if bypass is None and once else
               ("a lazy path returns without recording the error" if bypass is not None else "appended more than once"))
    # collect_errors forwards each element
    g = eh.method("collect_errors")
    loops = [s for s in function_stmts(g) if isinstance(s, ast.For)]
    ok = any(any(callee_last(c) == "collect_error" and any(isinstance(a, ast.Name) and a.id == txt(l.target)
                                                              for a in list(c.args) + [k.value for k in c.keywords])
                 for c in calls_in(l)) for l in loops)
    ctx.ob("R1", g, "collect_errors forwards every element to collect_error", ok, "loop calls collect_error(..., schema_error, ...)" if ok else "elements dropped")


def _helper_forwards(f, c):
    """If call `c` (made in f) goes to a helper next to f - a closure of f or of an enclosing function, a private function
    of the module, a private method of the class - that collects / wraps one of its parameters: how it does so."""
    last = callee_last(c)
    hlp = None
    if isinstance(c.func, ast.Attribute) and isinstance(c.func.value, ast.Name) and c.func.value.id in ("self", "cls") and f.cls is not None \
            and last.startswith("_"):
        hlp = f.cls.lookup(last)
    elif isinstance(c.func, ast.Name):
        g = f
        while g is not None and hlp is None:
            hlp = g.nested.get(last)
            g = getattr(g, "parent", None)
        if hlp is None and last.startswith("_"):
            hlp = f.module.functions.get(last)
    if hlp is None or hlp.module is not f.module:
        return None
    params = set(hlp.params)
    for c2 in calls_in(hlp.node, nested=True):
        l2 = callee_last(c2)
        if l2 in ("CoreCheckResult", "SchemaError", "SchemaErrors", "collect_error", "collect_errors") and (names_in(c2) & params):
            return "wrapped in CoreCheckResult" if l2 == "CoreCheckResult" else ("collected" if l2.startswith("collect") else "converted into a new schema error")
    return None


def _handler_forwards(f, h: ast.ExceptHandler):
    """How a handler of SchemaError(s) treats the caught error."""
    name = h.name
    if handler_reraises(h):
        return "re-raises"
    uses = []
    for c in calls_in(h, nested=True):
        last = callee_last(c)
        mentions = name is not None and name in names_in(c)
        if last in ("collect_error", "collect_errors") and mentions:
            uses.append("collected")
        elif last == "CoreCheckResult" and mentions:
            uses.append("wrapped in CoreCheckResult")
        elif last in ("SchemaError", "SchemaErrors", "_parse_schema_error", "_handle_schema_error") and mentions:
            uses.append("converted into a new schema error")
        elif mentions:
            # a helper next to the function that wraps / collects the error it is given
            how = _helper_forwards(f, c)
            if how:
                uses.append(how)
    for s in ast.walk(h):
        if isinstance(s, (ast.ListComp, ast.GeneratorExp)) and name is not None and any(name in names_in(g.iter) for g in s.generators):
            if any(callee_last(c) in ("CoreCheckResult", "SchemaError") for c in calls_in(s.elt, nested=True)) or \
                    (isinstance(s.elt, ast.Call) and callee_last(s.elt) in ("CoreCheckResult", "SchemaError")):
                uses.append("each error wrapped in CoreCheckResult")
        if isinstance(s, ast.Raise) and s.exc is not None and name is not None and (name in names_in(s.exc) or (s.cause is not None and name in names_in(s.cause))):
            uses.append("raised onwards")
        if isinstance(s, ast.For) and name is not None and name in names_in(s.iter):
            for c in calls_in(s):
                if callee_last(c) in ("collect_error", "append", "CoreCheckResult", "SchemaError") or _helper_forwards(f, c):
                    uses.append("each error forwarded")
    return ", ".join(sorted(set(uses)))


def r2_no_swallow(ctx):
    ix = ctx.ix
    mods = [m for m in ix.modules.values() if m.path.startswith(("pandera/backends/pandas/", "pandera/backends/polars/"))]
    for m in mods:
        for f in m.all_functions:
            for t in walk_no_nested(f.node):
                if not isinstance(t, ast.Try):
                    continue
                for names, h in caught_classes(t):
                    if not (set(names) & {"SchemaError", "SchemaErrors"}):
                        continue
                    ctx.touched(f)
                    how = _handler_forwards(f, h)
                    first = txt(h.body[0]) if h.body else ""
                    if not how and _only_regex_expansion(t):
                        ctx.ob("R2", f, f"except {'/'.join(names)} around regex expansion in {f.short}", True,
                               "confirmed exception: regex column without a match is not the container's error; the component validation reports it", f.loc(h))
                        continue
                    ctx.ob("R2", f, f"except {'/'.join(names)} in {f.short}", bool(how),
                           how if how else f"the caught schema error is dropped (handler starts with `{first[:50]}`): a failure that "
                           "eager validation raises is missing from the lazy report, or is never raised", f.loc(h))


LAZY_KINDS = ("ErrorHandler argument", "drop_invalid_rows precondition", "final collected_errors guard", "passed through",
              "eager unwrap of SchemaErrors")


def _lazy_use_kind(f, n: ast.Name):
    p = parent(n)
    # argument of a call
    q = n
    while p is not None and not isinstance(p, (ast.stmt,)):
        if isinstance(p, (ast.Tuple, ast.List)) and isinstance(parent(p), (ast.Tuple, ast.List)):
            return "passed through"      # element of an argument tuple of a core_checks row
        if isinstance(p, ast.Call):
            if callee_last(p) == "ErrorHandler":
                return "ErrorHandler argument"
            return "passed through"
        if isinstance(p, ast.keyword):
            q, p = p, parent(p)
            continue
        q, p = p, parent(p)
    st = p
    if isinstance(st, ast.If):
        t = txt(st.test)
        if "drop_invalid_rows" in t and isinstance(st.body[0], ast.Raise):
            return "drop_invalid_rows precondition"
        if "collected_errors" in t:
            return "final collected_errors guard"
        # `if lazy: raise` inside `except SchemaErrors` followed by raising the first error
        h = parent(st)
        if isinstance(h, ast.ExceptHandler) and "SchemaErrors" in handler_names(h) and all(isinstance(x, ast.Raise) for x in st.body):
            return "eager unwrap of SchemaErrors"
    if isinstance(st, ast.Assign) or isinstance(st, ast.Return):
        return None
    return None


def r3_lazy_uses(ctx):
    ix = ctx.ix
    for bc in schema_backend_classes(ix):
        for lst in bc.methods.values():
            for f in lst:
                if "lazy" not in f.params:
                    continue
                for n in walk_no_nested(f.node):
                    if isinstance(n, ast.Name) and n.id == "lazy" and isinstance(n.ctx, ast.Load):
                        kind = _lazy_use_kind(f, n)
                        st = enclosing_stmt(n)
                        ctx.ob("R3", f, f"use of `lazy` in `{txt(st)[:60]}`", kind is not None,
                               kind if kind else "control or data depends on `lazy` in a way that is not raise-now-versus-collect: "
                               "lazy and eager validation may evaluate different checks", f.loc(n))
                for g in f.nested.values():
                    for n in walk_no_nested(g.node):
                        if isinstance(n, ast.Name) and n.id == "lazy" and isinstance(n.ctx, ast.Load):
                            kind = _lazy_use_kind(g, n)
                            ctx.ob("R3", g, f"use of `lazy` in `{txt(enclosing_stmt(n))[:60]}`", kind is not None,
                                   kind or "unexpected dependence on lazy", g.loc(n))


def r4_final_raise(ctx):
    ix = ctx.ix
    for bc in schema_backend_classes(ix):
        f = bc.method("validate")
        if f is None:
            continue
        ehs = [s for s in function_stmts(f) if isinstance(s, ast.Assign) and isinstance(s.value, ast.Call) and callee_last(s.value) == "ErrorHandler"]
        if not ehs:
            continue
        ctx.touched(f)
        cfg = cfg_of(f.node)
        tests = [n for n in cfg.nodes if n.kind == "test" and n.ast is not None and "collected_errors" in txt(n.ast)]
        if not tests:
            ctx.ob("R4", f, f"{f.short}: collected errors are raised at the end", False,
                   "no test of error_handler.collected_errors: lazily collected errors are never raised")
            continue
        t = tests[-1]
        # true branch: raise SchemaErrors(schema_errors=error_handler.schema_errors) or drop_invalid_rows
        # which edge of the test means "errors were collected" (the test may be written `if not ...collected_errors`)
        from ..util import strip_not
        _e, pol = strip_not(t.ast)
        yes, no = ("True", "False") if pol else ("False", "True")
        true_nodes = cfg.reachable(next(b for b, l in cfg.succ[t.id] if l == yes), skip_labels=("exc", "fin-exc")) - \
            cfg.reachable(next(b for b, l in cfg.succ[t.id] if l == no), skip_labels=("exc", "fin-exc"))
        raises = [cfg.nodes[i].ast for i in true_nodes if cfg.nodes[i].kind == "stmt" and isinstance(cfg.nodes[i].ast, ast.Raise)]
        drops = [cfg.nodes[i].ast for i in true_nodes if cfg.nodes[i].kind == "stmt" and any(callee_last(c) == "drop_invalid_rows" for c in calls_in(cfg.nodes[i].ast))]
        good_raise = [r for r in raises if isinstance(r.exc, ast.Call) and callee_last(r.exc) == "SchemaErrors"
                      and kw(r.exc, "schema_errors") is not None and txt(kw(r.exc, "schema_errors")).endswith(".schema_errors")]
        from ..util import bool_atoms
        extra_atoms = [a for a in bool_atoms(t.ast) if "collected_errors" not in a and a != "lazy"]
        ok = bool(good_raise) and len(good_raise) == len(raises) and not extra_atoms
        # every normal return is reached through the False branch or a drop
        pc = path_condition(cfg, t.id)
        lazy_only = any("lazy" == n for n in pc[0])
        ctx.ob("R4", f, f"{f.short}: collected errors end in SchemaErrors(schema_errors=handler.schema_errors)", ok,
               f"{len(good_raise)} raise(s) of SchemaErrors with the handler's errors" + (f", {len(drops)} drop_invalid_rows path(s)" if drops else "")
               if ok else (f"collected errors are raised only when `{txt(t.ast)}`: the extra condition(s) {extra_atoms} let a lazy run with "
                           "collected errors return normally" if extra_atoms else
                           f"true branch of `{txt(t.ast)}` has raises {[txt(r)[:40] for r in raises]}"), f.loc(t.ast))
        rets = [n for n in cfg.nodes if n.kind == "stmt" and isinstance(n.ast, ast.Return)]
        bypass = None
        for r in rets:
            if r.id in true_nodes:
                continue
            # any path from the ErrorHandler creation to this return that avoids the test?
            start = cfg.node_of(ehs[0])
            p = cfg.must_pass(start.id, {r.id}, {t.id}, skip_labels=("exc", "fin-exc"))
            if p is not None:
                bypass = r
        ctx.ob("R4", f, f"{f.short}: every normal return passes the collected_errors test", bypass is None,
               "must-pass-through holds" if bypass is None else f"`{txt(bypass.ast)}` (line {bypass.lineno}) is reachable without testing collected errors",
               f.loc(t.ast))


def r5_counts(ctx):
    ix = ctx.ix
    forms = {}
    for q in ("pandera/backends/pandas/base.py::PandasSchemaBackend.failure_cases_metadata",
              "pandera/backends/polars/base.py::PolarsSchemaBackend.failure_cases_metadata"):
        f = ix.func(q)
        ctx.touched(f)
        incs = [s for s in walk_no_nested(f.node) if isinstance(s, ast.AugAssign) and isinstance(s.op, ast.Add)
                and "error_counts" in txt(s.target) and isinstance(s.value, ast.Constant) and s.value.value == 1]
        incs.sort(key=lambda x: x.lineno)
        final = incs[-1] if incs else None
        ok = final is not None and "reason_code" in txt(final.target) and isinstance(parent(final), ast.For) and "collected_errors" in txt(parent(final).iter)
        ctx.ob("R5", f, "error_counts: one increment per collected error keyed by reason code", ok,
               f"`{txt(final)}` inside `for ... in {txt(parent(final).iter)}`" if ok else "error counts are not one-per-collected-error")
    # check identifier chains: the value reported under "check" in the failure-case metadata
    for q in ("pandera/backends/pandas/error_formatters.py::consolidate_failure_cases",
              "pandera/backends/polars/base.py::PolarsSchemaBackend.failure_cases_metadata"):
        f = ix.func(q)
        ctx.touched(f)
        sinks = []
        for n in walk_no_nested(f.node):
            if isinstance(n, ast.Dict):
                for k, v in zip(n.keys, n.values):
                    if isinstance(k, ast.Constant) and k.value == "check":
                        sinks.append(v)
            elif isinstance(n, ast.Call):
                v = kw(n, "check")
                if v is not None and callee_last(n) in ("with_columns", "assign"):
                    sinks.append(v)
                if callee_last(n) == "append" and isinstance(n.func.value, ast.Subscript) and \
                        isinstance(n.func.value.slice, ast.Constant) and n.func.value.slice.value == "check" and n.args:
                    sinks.append(n.args[0])
        loopvars = {l.target.id: "_err" for l in walk_no_nested(f.node) if isinstance(l, ast.For) and isinstance(l.target, ast.Name)
                    and "schema_errors" in txt(l.iter)}
        chains = set()
        for v in sinks:
            while (isinstance(v, ast.Call) and callee_last(v) == "lit" and v.args) or (isinstance(v, (ast.List, ast.Tuple)) and len(v.elts) == 1):
                v = v.args[0] if isinstance(v, ast.Call) else v.elts[0]   # pl.lit(x) / the one-row column [x]
            v = resolve_local(f.node, v)
            from ..util import decision_function
            if isinstance(v, ast.Name):
                names_, table = decision_function(f.node, v.id, loopvars)
                if not table or all(val is None for val in table.values()):
                    raise AnalysisError(f"{q}: `{v.id}` flows into the 'check' field but is never assigned")
            else:
                names_, table = decision_function(f.node, None, loopvars, value_expr=v)
            chains.add((names_, tuple(sorted(table.items()))))
        if not chains:
            raise AnalysisError(f"{q}: no value flows into the 'check' field of the failure cases")
        forms[q] = chains
    vals = list(forms.values())
    ok = len(vals) == 2 and len(vals[0]) == 1 and vals[0] == vals[1]
    ctx.ob("R5", "pandera/backends", "check identifier derived by the same chain in pandas and polars reports", ok,
           "identical decision chains" if ok else f"{ {k.split('::')[-1]: sorted(v) for k, v in forms.items()} }")


def _expr_leaves(v, mapping):
    from ..util import alpha, canon_atom, strip_not
    out = set()

    def rec(e, conds):
        if isinstance(e, ast.IfExp):
            t = alpha(e.test, mapping) if mapping else e.test
            a, pol = strip_not(t)
            ct, p2 = canon_atom(a)
            rec(e.body, conds | {(ct, pol == p2)})
            rec(e.orelse, conds | {(ct, not (pol == p2))})
        else:
            out.add((frozenset(conds), txt(alpha(e, mapping) if mapping else e)))
    rec(v, frozenset())
    return out


def r6_fences(ctx):
    ix = ctx.ix
    eng = engine(ix)
    cg = CallGraph(eng)
    scope_funcs = [f for f in eng.funcs if f.module.path.startswith(("pandera/backends/", "pandera/api/", "pandera/errors.py",
                                                                      "pandera/engines/", "pandera/validation_depth.py"))]
    rs = RaiseSets(cg).compute(scope_funcs)
    ctx.stats["functions_with_schema_raise_sets"] = sum(1 for v in rs.sets.values() if v)
    for bc in schema_backend_classes(ix):
        for mname in ("validate",):
            for f in [bc.method(mname)] + ([g for g in (bc.method(mname).nested.values() if bc.method(mname) else [])]):
                if f is None:
                    continue
                for t in walk_no_nested(f.node):
                    if not isinstance(t, ast.Try):
                        continue
                    caught = set()
                    for names, h in caught_classes(t):
                        caught |= set(names)
                    if not (caught & {"SchemaError", "SchemaErrors"}):
                        continue
                    thrown = set()
                    detail = []
                    for b in t.body:
                        for c in calls_in(b):
                            r = rs.of_call(f, c) & {"SchemaError", "SchemaErrors"}
                            if r:
                                thrown |= r
                                detail.append(f"{txt(c.func)}: {sorted(r)}")
                        for s in ast.walk(b):
                            if isinstance(s, ast.Raise) and s.exc is not None:
                                e = s.exc.func if isinstance(s.exc, ast.Call) else s.exc
                                nm = e.attr if isinstance(e, ast.Attribute) else (e.id if isinstance(e, ast.Name) else "")
                                if nm in ("SchemaError", "SchemaErrors"):
                                    thrown.add(nm)
                    ctx.touched(f)
                    if not thrown:
                        continue
                    missed = thrown - caught - ({"SchemaError", "SchemaErrors"} if caught & {"Exception", "BaseException"} else set())
                    ctx.ob("R6", f, f"try in {f.short} catching {sorted(caught & {'SchemaError', 'SchemaErrors', 'Exception'})}", not missed,
                           f"callees raise {sorted(thrown)}; all caught" if not missed else
                           f"the fenced call(s) raise {sorted(missed)} ({'; '.join(detail[:3])}) but the handlers only catch "
                           f"{sorted(caught)}: in lazy mode this failure escapes as a single {sorted(missed)[0]} instead of being collected",
                           f.loc(t))


NAMEISH = ("name", "column_name", "col_name", "column")


def _nameish(e) -> bool:
    return (isinstance(e, ast.Attribute) and e.attr in NAMEISH) or (isinstance(e, ast.Name) and e.id in NAMEISH)


def r7_column_attribution(ctx):
    """Every site writing the `column` key of reported failure cases takes the component name as is: the value (and
    the guards of its local definitions) may test a name against None, never for truthiness - column keys 0 / "" /
    False are legal names of positional levels and columns."""
    ix = ctx.ix
    sites = 0
    for f in ix.funcs.values():
        if not f.module.path.startswith(("pandera/backends/pandas/", "pandera/backends/polars/", "pandera/api/base/error_handler.py")):
            continue
        cfg = None
        for c in calls_in(f.node):
            vals = []
            v = kw(c, "column")
            if v is not None and callee_last(c) in ("assign", "with_columns", "SchemaError", "lit"):
                vals.append(v)
            for d in ast.walk(c) if callee_last(c) in ("append", "from_records", "DataFrame") else ():
                if isinstance(d, ast.Dict):
                    for k, dv in zip(d.keys, d.values):
                        if isinstance(k, ast.Constant) and k.value == "column":
                            vals.append(dv)
            for v in vals:
                sites += 1
                ctx.touched(f)
                cfg = cfg or cfg_of(f.node)
                bad = None
                exprs, seen = [(v, enclosing_stmt(c))], set()
                while exprs and bad is None:
                    e, st = exprs.pop()
                    for x in ast.walk(e):
                        if isinstance(x, ast.BoolOp) and any(_nameish(o) for o in x.values[:-1]):
                            bad = f"`{txt(x)}` falls through on a falsy name"
                        elif isinstance(x, ast.IfExp) and _nameish(x.test):
                            bad = f"`{txt(x)}` tests a name for truthiness"
                        elif isinstance(x, ast.Name) and x.id not in seen and not isinstance(getattr(x, "ctx", None), ast.Store):
                            seen.add(x.id)
                            for s2 in function_stmts(f):
                                if isinstance(s2, ast.Assign) and any(isinstance(t, ast.Name) and t.id == x.id for t in s2.targets):
                                    exprs.append((s2.value, s2))
                                    n2 = cfg.node_of(s2)
                                    for t, pol in (cfg.guards(n2.id) if n2 is not None else ()):
                                        tt = t
                                        while isinstance(tt, ast.UnaryOp) and isinstance(tt.op, ast.Not):
                                            tt = tt.operand
                                        if _nameish(tt):
                                            bad = f"`{txt(s2)[:50]}` is chosen under the truthiness test `{txt(t)}`"
                ctx.ob("R7", f, f"{f.short}: failure-case column `{txt(v)[:60]}`", bad is None,
                       "component name taken as is (None tests only)" if bad is None else
                       bad + ": a component named 0 / '' (e.g. the first unnamed MultiIndex level) is reported under another column, "
                       "so the lazy report no longer names the offending column", f.loc(v))
    return sites


def r8_per_column_schema(ctx):
    """Every regex-matched column is validated against its own (renamed) schema object: collected SchemaErrors keep a
    reference to the schema they were raised for, so one object renamed per column makes all of them name the last column."""
    from ..util import Expander
    ix = ctx.ix
    f = ix.func("pandera/backends/pandas/components.py::ColumnBackend.validate")
    ctx.touched(f)
    n = 0
    for g in [f] + list(f.nested.values()):
        ex = Expander(g.node)
        for c in calls_in(g.node):
            if callee_last(c) != "validate" or not (isinstance(c.func, ast.Attribute) and isinstance(c.func.value, ast.Call)
                                                    and callee_last(c.func.value) == "super"):
                continue
            arg = c.args[1] if len(c.args) > 1 else kw(c, "schema")
            if arg is None:
                continue
            n += 1
            e = ex.expand(arg)
            renamed = any(isinstance(x, ast.Call) and callee_last(x) == "set_name" for x in ast.walk(e))
            fresh_here = any(isinstance(x, ast.Call) and callee_last(x) in ("copy", "deepcopy") for x in ast.walk(e))
            local_names = set(ex.defs) | set(ex.params)
            free = sorted({x.id for x in ast.walk(e) if isinstance(x, ast.Name) and isinstance(x.ctx, ast.Load)
                           and x.id not in local_names and x.id not in ("copy", "deepcopy", "self")} - {f.positional[2] if len(f.positional) > 2 else "schema"})
            ok = (not renamed) or (fresh_here and not [v for v in free if v in Expander(f.node).defs])
            ctx.ob("R8", g, "each matched column is validated against its own renamed schema copy", ok,
                   f"`{txt(e)[:70]}`: copied inside the per-column call" if ok else
                   f"`{txt(e)[:70]}` renames an object created once per validate call ({free or 'outside the per-column function'}): every "
                   "SchemaError collected for earlier columns refers to the same object and ends up naming the last matched column, so the "
                   "eager error is not among the lazy errors and frame-level failure cases are attributed to the wrong column", g.loc(c))
    if n == 0:
        raise AnalysisError("ColumnBackend.validate: per-column array validation call not found")


def r9_case_attribution(ctx):
    """Which column a tabular failure case is attributed to (pandas consolidate_failure_cases): the per-row `column`
    labels the failure cases carry themselves win, then the error's column_name, then the schema name.  And the error
    handler's accessors hand out exactly what was collected."""
    from ..util import decision_function
    ix = ctx.ix
    f = ix.func("pandera/backends/pandas/error_formatters.py::consolidate_failure_cases")
    ctx.touched(f)
    loopvars = {l.target.id: "_err" for l in walk_no_nested(f.node) if isinstance(l, ast.For) and isinstance(l.target, ast.Name)
                and "schema_errors" in txt(l.iter)}
    var = None
    for c in calls_in(f.node):
        v = kw(c, "column")
        if v is not None and callee_last(c) == "assign":
            names = [x.id for x in ast.walk(v) if isinstance(x, ast.Name) and x.id not in loopvars and x.id not in ("isinstance", "tuple")]
            var = names[0] if names else None
    if var is None:
        raise AnalysisError("consolidate_failure_cases: the column attributed to tabular failure cases was not found")
    names_, table = decision_function(f.node, var, loopvars)
    got = {tuple(sorted(zip(names_, k))): v for k, v in table.items()}
    def val(assign):
        a = dict(assign)
        own = [k for k in a if k.startswith("'column' in ") or k.startswith('"column" in ')]
        if own and a[own[0]]:
            return "_err.failure_cases['column']"
        cn = [k for k in a if k == "_err.column_name is None"]
        if cn and not a[cn[0]]:
            return "_err.column_name"
        return "_err.schema.name"
    probs = []
    need = {"_err.column_name is None"}
    if not any(k.startswith(("'column' in ", '"column" in ')) for k in names_) or not need <= set(names_):
        probs.append(f"decided on {list(names_)}")
    for assign, v in got.items():
        if v is None:
            continue   # the column is not assigned on this path (scalar failure cases)
        if any(k.startswith(f"isinstance({var},") and val_ for k, val_ in assign):
            continue   # re-wrapping of an already chosen tuple label ([column] * n), not a choice of the column
        if v.replace('"', "'") != val(assign):
            probs.append(f"under {dict(assign)} the column is `{v}`, documented precedence gives `{val(assign)}`")
            break
    ctx.ob("R9", f, "tabular failure cases keep their own per-row column labels, then column_name, then the schema name", not probs,
           "precedence: failure_cases['column'] > err.column_name > err.schema.name" if not probs else
           "; ".join(probs) + ": cells of a frame-level error (joint uniqueness) are attributed to a column that does not hold them")
    eh = ix.cls(EH)
    for prop, store in (("collected_errors", "_collected_errors"), ("schema_errors", "_schema_errors")):
        getters = [g for g in eh.methods.get(prop, []) if g.is_property() and not any("setter" in d for d in g.decorator_names())]
        for g in getters:
            body = [b for b in g.node.body if not (isinstance(b, ast.Expr) and isinstance(b.value, ast.Constant))]
            ok = len(body) == 1 and isinstance(body[0], ast.Return) and txt(body[0].value) == f"self.{store}"
            ctx.ob("R9", g, f"ErrorHandler.{prop} hands out exactly what collect_error stored", ok,
                   f"return self.{store}" if ok else
                   f"`{txt(body[-1])[:80]}`: the accessor filters / rebuilds the collected errors, while collect_error raises the unfiltered error in "
                   "eager mode - lazy validation can return normally where eager validation raises")


R10_SELFTEST = """
def bad(schema, obj, handler):
    try:
        for col in schema.columns.values():
            obj = col.dtype.try_coerce(obj)
    except ParserError as exc:
        handler.collect_error(exc)
    return obj

def good(schema, obj, handler):
    for col in schema.columns.values():
        try:
            obj = col.dtype.try_coerce(obj)
        except ParserError as exc:
            handler.collect_error(exc)
    return obj
"""


def _collecting_try_around_loop(fn_node):
    out = []
    for t in walk_no_nested(fn_node):
        if not isinstance(t, ast.Try):
            continue
        collecting = [h for h in t.handlers if any(callee_last(c) in ("collect_error", "collect_errors") for c in calls_in(h))
                      and not any(isinstance(x, ast.Raise) for b in h.body for x in ast.walk(b))]
        if not collecting:
            continue
        loops = []
        todo = list(t.body)
        while todo:
            st = todo.pop()
            if isinstance(st, (ast.For, ast.While)):
                loops.append(st)
            elif isinstance(st, (ast.If, ast.With)):
                todo += list(st.body) + list(getattr(st, "orelse", []))
        for lp in loops:
            # the loop body itself has no inner try that collects: one failure ends the loop
            inner = [x for x in ast.walk(lp) if isinstance(x, ast.Try) and any(
                callee_last(c) in ("collect_error", "collect_errors") for h in x.handlers for c in calls_in(h))]
            if not inner and any(isinstance(x, ast.Call) for x in ast.walk(lp)):
                out.append((t, lp, collecting[0]))
    return out


def r10_collect_per_element(ctx):
    """Lazy validation reports *every* failure.  A handler that collects an error and carries on must therefore sit
    inside the loop over the things being validated: a single try around the whole loop ends the loop at the first
    failing element, so the failures of the remaining columns never reach the report (and later stages run on a
    half-processed object and report errors that the eager run does not have)."""
    import ast as _ast
    t = _ast.parse(R10_SELFTEST)
    for nd in _ast.walk(t):
        for c in _ast.iter_child_nodes(nd):
            c._parent = nd  # type: ignore[attr-defined]
    got = {fn.name: len(_collecting_try_around_loop(fn)) for fn in t.body}
    if got != {"bad": 1, "good": 0}:
        raise AnalysisError(f"C02.R10 self-test failed: {got}")
    n = 0
    first = None
    for m in ctx.ix.modules.values():
        if not m.path.startswith(("pandera/backends/pandas/", "pandera/backends/polars/")):
            continue
        for f in m.all_functions:
            n += 1
            first = first or f
            for t_, lp, h in _collecting_try_around_loop(f.node):
                ctx.ob("R10", f, f"{f.short}: errors of `for {txt(lp.target)} in {txt(lp.iter)[:40]}` are collected per element", False,
                       f"the collecting `except {txt(h.type) if h.type is not None else ''}` (line {h.lineno}) encloses the whole loop (line {lp.lineno}): the first element "
                       "that fails ends the loop, the failures of the remaining elements are missing from the lazy report", f.loc(lp))
    ctx.ob("R10", first, "collecting handlers sit inside the loops they guard (pandas and polars backends)", True, f"{n} functions analysed")


def r11_sequential_parts_both_reported(ctx):
    """An API-level validate that validates two parts of the object one after the other (SeriesSchema: the values through
    the array backend, then `self.index.validate`) reports the failures of *both* in lazy mode only if the first call is
    fenced: unfenced, its SchemaErrors leaves the method before the second part has run, and the lazy report omits every
    error of the second part (they surface one by one after the reported cells have been fixed)."""
    from ..callgraph import enclosing_tries
    ix = ctx.ix
    n = 0
    for mp in ("pandera/api/pandas/array.py", "pandera/api/pandas/container.py", "pandera/api/polars/container.py", "pandera/api/polars/components.py"):
        m = ix.by_path.get(mp)
        if m is None:
            continue
        for f in m.all_functions:
            if f.cls is None or f.name not in ("validate", "_validate"):
                continue
            stages = []
            for st in function_stmts(f):
                if isinstance(st, (ast.Assign, ast.Return, ast.Expr)) and getattr(st, "value", None) is not None:
                    for c in ast.walk(st.value):   # the call may be wrapped (`return cast(T, self.index.validate(...))`)
                        if isinstance(c, ast.Call) and callee_last(c) in ("validate", "_validate") and isinstance(c.func, ast.Attribute) \
                                and "lazy" in {k.arg for k in c.keywords}:
                            stages.append((st, c))
                            break
            recvs = {txt(c.func.value) for _, c in stages}
            if len(stages) < 2 or len(recvs) < 2:
                continue
            n += 1
            first_st, first = stages[0]
            fenced = any(any("SchemaErrors" in handler_names(h) or h.type is None for h in t.handlers) for t in enclosing_tries(first, f.node))
            ctx.ob("R11", f, f"{f.short}: `{txt(stages[1][1].func)}` still runs (lazy) when `{txt(first.func)}` has raised SchemaErrors", fenced,
                   "first part fenced, errors merged" if fenced else
                   f"`{txt(first.func)}(...)` (line {first.lineno}) is not fenced: in lazy mode its SchemaErrors leaves {f.name} before `{txt(stages[1][1].func)}` "
                   f"(line {stages[1][1].lineno}) runs, so every error of the second part is missing from the report", f.loc(first))
            # the errors caught from the first part must not be forgotten: every normal exit is reached only when nothing was caught
            if fenced:
                caught = set()
                for t in enclosing_tries(first, f.node):
                    for h in t.handlers:
                        if h.name and ("SchemaErrors" in handler_names(h) or h.type is None):
                            for a in ast.walk(h):
                                if isinstance(a, ast.Assign) and isinstance(a.value, ast.Name) and a.value.id == h.name:
                                    caught |= {tt.id for tt in a.targets if isinstance(tt, ast.Name)}
                if caught:
                    cfg = cfg_of(f.node)
                    v = sorted(caught)[0]
                    for r in function_stmts(f):
                        if not isinstance(r, ast.Return) or r.lineno <= first.lineno:
                            continue
                        node = cfg.node_of(r)
                        if node is None:
                            continue
                        pc = path_condition(cfg, node.id, keep=lambda t, nn: t.replace(" ", "") == f"{v}isNone")
                        ok = pc == ((f"{v} is None",), frozenset({(True,)}))
                        ctx.ob("R11", f, f"{f.short}: `{txt(r)[:50]}` is reached only when the first part raised nothing", ok,
                               f"guarded by `{v} is None`" if ok else
                               f"`{txt(r)[:60]}` returns although `{v}` may hold the SchemaErrors caught from `{txt(first.func)}`: with a conforming second part the lazy "
                               "validation returns the invalid object as if it were valid, where eager validation raises", f.loc(r))
    ctx.stats["sequential_validations"] = n
    if n < 1:
        raise AnalysisError("no API-level validate with two sequential parts found (expected SeriesSchema.validate)")


def r12_polars_failure_frames_same_schema(ctx):
    """The polars report concatenates one frame per collected error.  `pl.concat` requires equal column types, so every
    branch that builds such a frame casts `failure_case` to the common string type: a branch that keeps the raw value
    (a scalar False for a check returning a plain bool) makes the lazy report raise polars SchemaError ("type Boolean is
    incompatible with expected type String") as soon as another error has string failure cases."""
    from ..util import Expander
    f = ctx.ix.func("pandera/backends/polars/base.py::PolarsSchemaBackend.failure_cases_metadata")
    ctx.touched(f)
    ex = Expander(f.node)
    appended = [c.args[0] for c in calls_in(f.node) if callee_last(c) == "append" and c.args and "failure_case" in txt(c.func.value)]
    if not appended:
        raise AnalysisError("polars failure_cases_metadata: no frame collection found")
    names = {a.id for a in appended if isinstance(a, ast.Name)}
    n = 0
    for st in walk_no_nested(f.node):
        if isinstance(st, ast.Assign) and any(isinstance(t, ast.Name) and t.id in names for t in st.targets):
            casts = [c for c in ast.walk(st.value) if isinstance(c, ast.Call) and callee_last(c) == "cast"]
            if not casts and isinstance(st.value, ast.Call):
                # the frame is built by a private helper next to the function: its returns carry the cast
                h = f.module.functions.get(callee_last(st.value)) or (f.cls.lookup(callee_last(st.value)) if f.cls is not None else None)
                if h is not None and h.module is f.module:
                    hx = Expander(h.node)
                    casts = [c for r in walk_no_nested(h.node) if isinstance(r, ast.Return) and r.value is not None
                             for d in hx.closure(r.value) for c in ast.walk(d) if isinstance(c, ast.Call) and callee_last(c) == "cast"]
            if not casts:
                continue   # an intermediate definition (the cast comes later on this path)
            n += 1
            keys = {k.value for c in casts for a in c.args if isinstance(a, ast.Dict) for k in a.keys if isinstance(k, ast.Constant)}
            ok = "failure_case" in keys
            ctx.ob("R12", f, "polars report: every per-error frame casts `failure_case` to the common string type", ok,
                   f"cast of {sorted(keys)}" if ok else
                   f"`{txt(st)[:70]}` casts {sorted(keys)} but not `failure_case`: a scalar failure case (False) keeps its own type and pl.concat raises a polars "
                   "SchemaError out of the lazy report", f.loc(st))
    if n < 2:
        raise AnalysisError(f"polars failure_cases_metadata: casting branches found: {n}")


def run(ctx):
    r12_polars_failure_frames_same_schema(ctx)
    r10_collect_per_element(ctx)
    r11_sequential_parts_both_reported(ctx)
    r9_case_attribution(ctx)
    r8_per_column_schema(ctx)
    r7_column_attribution(ctx)
    r1_collect_error(ctx)
    r2_no_swallow(ctx)
    r3_lazy_uses(ctx)
    r4_final_raise(ctx)
    r5_counts(ctx)
    r6_fences(ctx)
    ctx.assume("exception classes are identified by name; raise-sets cover explicit `raise` statements of pandera code")
