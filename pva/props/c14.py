"""C14 - an inferred schema accepts the data it was inferred from: provenance of the
inferred statistics and their forwarding into the schema constructors."""

from __future__ import annotations

import ast

from ..index import AnalysisError, function_stmts, walk_no_nested
from ..util import Expander, callee_last, calls_in, kw, names_in, txt
from .c12 import _dict_keys

EXPLANATION = (
    "Static provenance analysis of pandera/schema_statistics/pandas.py and pandera/schema_inference/pandas.py (ast, "
    "def-use expansion of locals; nothing executed). (R1) _get_array_check_statistics emits only inclusive bound checks "
    "(greater_than_or_equal_to / less_than_or_equal_to) whose values are min()/max() of the very array it was given "
    "(optionally through float(), the only conversion under which the extreme still satisfies its own bound), isin from "
    "that array's categories, and nothing for all-null arrays; (R2) in every statistics constructor the nullable flag is "
    "`isna().any()` of the same object, the dtype is _get_array_type(object) and the checks are computed from the same "
    "object with that dtype; (R5) the objects the statistics are computed from are lossless views of the frame / series / "
    "index being inferred (the object, a column, its index, get_level_values(i)) - never a value-set projection such as "
    ".levels / .unique() / .categories / dropna(), which forgets nulls and multiplicities; (R3) parse_check_statistics "
    "maps every statistics key to the Check constructor of the same name; (R4) infer_dataframe_schema / "
    "infer_series_schema / _create_index forward dtype, checks, nullable (and name) from the statistics entry of the same "
    "key into the Column / Index / SeriesSchema constructors, and coerce=True keeps inferred dtypes reachable; (R6) the "
    "bound-consistency guard that serialisation runs (parse_checks) rejects the inclusive pair only for min > max, strictly "
    "- tight bounds of constant data are equal. (R7) definite assignment: no function of schema inference / statistics reads a local that a branch-only path from its entry leaves unassigned (CFG may-analysis, optimistic about try bodies and loop bodies, correlated guards pruned) - an UnboundLocalError there would escape infer_schema. " 
    " (R8) an entry that a statistics producer may set to None (`columns` of a column-less frame) is tested before the inference code iterates it. " 
    "NOT "
    "decided: numeric tightness (float rounding of large integers), NaT/inf, mixed-object inference, survival through "
    "serialisation on data."
    " (R9) the resolution of an infer_dtype label in the statistics is total over pandas' documented label set: each label is excluded by the guard before the call, a registered string equivalent of the pandas / numpy engine (read from the register_dtype tables), a numpy type name, or the call is fenced by `except TypeError` that keeps the object dtype."
)
LEVEL_RULE = "one obligation per statistics key / constructor keyword / data view"
FLOORS = {"R1": 6, "R2": 9, "R3": 2, "R4": 10, "R5": 8, "R6": 1, "R7": 1}

STATS = "pandera/schema_statistics/pandas.py"
INFER = "pandera/schema_inference/pandas.py"
INCLUSIVE = {"greater_than_or_equal_to": "min", "less_than_or_equal_to": "max"}
STRICT = {"greater_than", "less_than", "in_range", "equal_to", "not_equal_to"}
LOSSLESS_STEPS = {"[]", "index", "get_level_values()", "to_series()", "to_frame()", "copy()", "loc", "iloc", "columns"}


def _returned_dicts(f, ex):
    """dict literals that may flow into a return value of f"""
    out = []
    for s in function_stmts(f):
        if isinstance(s, ast.Return) and s.value is not None:
            for e in ex.closure(s.value):
                for n in ast.walk(e):
                    if isinstance(n, ast.Dict) and n not in out:
                        out.append(n)
    return out


def r1_bounds(ctx):
    m = ctx.ix.module(STATS)
    f = m.functions.get("_get_array_check_statistics")
    if f is None:
        raise AnalysisError("_get_array_check_statistics missing")
    ctx.touched(f)
    arr = f.positional[0]
    ex = Expander(f.node)
    dicts = _returned_dicts(f, ex)
    for d in dicts:
        keys = _dict_keys(d)
        for k, v in keys.items():
            if k in INCLUSIVE:
                agg = INCLUSIVE[k]
                vv = ex.expand(v)
                inner = vv
                while isinstance(inner, ast.Call) and isinstance(inner.func, ast.Name) and inner.func.id == "float" and len(inner.args) == 1:
                    inner = inner.args[0]
                ok = isinstance(inner, ast.Call) and isinstance(inner.func, ast.Attribute) and inner.func.attr == agg \
                    and txt(inner.func.value) == arr and not inner.args
                ctx.ob("R1", f, f"{k} <- {arr}.{agg}()", ok,
                       "inclusive bound equal to the extreme of the same array" if ok else
                       f"value `{txt(vv)}` is not {arr}.{agg}() (optionally as float): the extreme value of the data would violate (or not be tight against) the inferred bound")
            elif k == "isin":
                cl = ex.closure(v)
                ok = any("categories" in txt(e) for e in cl)
                srcs = [e for e in cl if "categories" in txt(e) and not isinstance(e, ast.Name)]
                roots = [e for e in cl if any(isinstance(a, ast.Attribute) and a.attr == "categories" for a in ast.walk(e))]
                from_arr = bool(roots) and all(arr in names_in(e) for e in roots if any(isinstance(a, ast.Attribute) and a.attr == "categories" for a in ast.walk(e)))
                ctx.ob("R1", f, "isin <- categories of the same array", ok and from_arr,
                       f"categories taken from {arr}" if ok and from_arr else f"isin values are `{txt(ex.expand(v))}`")
            else:
                ctx.ob("R1", f, f"statistics key {k!r}", k not in STRICT,
                       "not a bound check" if k not in STRICT else
                       f"a strict / exact check ({k}) is inferred from the data: its own extreme values fail it")
    for d in dicts:
        keys = _dict_keys(d)
        if set(keys) & (set(INCLUSIVE) | STRICT):
            for k in INCLUSIVE:
                if k not in keys:
                    ctx.ob("R1", f, f"bound statistics contain {k}", False,
                           f"a bound statistics dict lacks the inclusive key {k!r} (keys: {sorted(keys)})")
    # all-null arrays get no value checks: a `return None` reached exactly when <arr>.isna().all()
    ok = False
    for s in function_stmts(f):
        if isinstance(s, ast.If) and any(isinstance(b, ast.Return) and (b.value is None or (isinstance(b.value, ast.Constant) and b.value.value is None)) for b in s.body):
            t = ex.expand(s.test)
            ok = ok or txt(t) == f"{arr}.isna().all()" or txt(t) == f"{arr}.isnull().all()"
        if isinstance(s, ast.Return) and isinstance(s.value, ast.IfExp):
            t = ex.expand(s.value.test)
            if txt(t) in (f"{arr}.isna().all()", f"{arr}.isnull().all()") and isinstance(s.value.body, ast.Constant) and s.value.body.value is None:
                ok = True
    ctx.ob("R1", f, "all-null arrays get no value checks", ok, "returns None when everything is null" if ok else "min()/max() of an all-null array would become NaN bounds")


def _stat_dicts(g):
    return [d for d in walk_no_nested(g.node) if isinstance(d, ast.Dict) and {"dtype", "nullable", "checks"} <= set(_dict_keys(d))]


def _comp_env(node, root_fn):
    """comprehension variables in scope at `node`: name -> (iterable expr, position in a tuple target or None)"""
    env = {}
    from ..index import parent
    p = parent(node)
    while p is not None and p is not root_fn:
        if isinstance(p, (ast.ListComp, ast.SetComp, ast.DictComp, ast.GeneratorExp)):
            for g in p.generators:
                if isinstance(g.target, ast.Name):
                    env.setdefault(g.target.id, (g.iter, None))
                elif isinstance(g.target, ast.Tuple):
                    for i, t in enumerate(g.target.elts):
                        if isinstance(t, ast.Name):
                            env.setdefault(t.id, (g.iter, i))
        p = parent(p)
    return env


def _steps(e, ex, comp, depth=0):
    """(root name, [access steps]) of a data expression; comprehension variables and unique locals are resolved."""
    if depth > 10:
        return None, ["?"]
    if isinstance(e, ast.Name):
        if e.id in comp:
            it, pos = comp[e.id]
            if isinstance(it, ast.Call) and callee_last(it) == "items" and pos == 1:
                # value of a local dict built from keys: resolve the dict's values
                base = ex.expand(it.func.value)
                if isinstance(base, ast.DictComp):
                    return _steps(base.value, ex, _comp_env_of(base), depth + 1)
            r, st = _steps(it, ex, {k: v for k, v in comp.items() if k != e.id}, depth + 1)
            return r, st + ["<element>"]
        if e.id in ex.unique:
            return _steps(ex.unique[e.id], ex, comp, depth + 1)
        return e.id, []
    if isinstance(e, ast.Attribute):
        r, st = _steps(e.value, ex, comp, depth + 1)
        return r, st + [e.attr]
    if isinstance(e, ast.Subscript):
        r, st = _steps(e.value, ex, comp, depth + 1)
        return r, st + ["[]"]
    if isinstance(e, ast.Call) and isinstance(e.func, ast.Attribute):
        r, st = _steps(e.func.value, ex, comp, depth + 1)
        return r, st + [e.func.attr + "()"]
    if isinstance(e, ast.Call) and isinstance(e.func, ast.Name) and e.func.id in ("range", "len", "enumerate"):
        return "<int>", []
    return None, [txt(e)[:30]]


def _comp_env_of(comp_node):
    env = {}
    for g in comp_node.generators:
        if isinstance(g.target, ast.Name):
            env[g.target.id] = (g.iter, None)
        elif isinstance(g.target, ast.Tuple):
            for i, t in enumerate(g.target.elts):
                if isinstance(t, ast.Name):
                    env[t.id] = (g.iter, i)
    return env


def _view_ok(e, g, ex, roots):
    comp = _comp_env(e, g.node)
    r, st = _steps(e, ex, comp)
    lossy = [s for s in st if s not in LOSSLESS_STEPS]
    # iterating the frame itself yields column labels; <element> of the object is a key, fine when only used as subscript
    return (r in roots and not lossy), r, st


def r2_provenance(ctx):
    m = ctx.ix.module(STATS)
    gat = m.functions.get("_get_array_type")
    if gat is None:
        raise AnalysisError("_get_array_type missing")
    ctx.touched(gat)
    x = gat.positional[0]
    gx = Expander(gat.node)
    rets = [s for s in function_stmts(gat) if isinstance(s, ast.Return) and s.value is not None]
    srcs = []
    for r in rets:
        for e in gx.closure(r.value):
            srcs += [c for c in ast.walk(e) if isinstance(c, ast.Call) and txt(c.func).endswith("Engine.dtype")]
    ok = any(c.args and txt(c.args[0]) == f"{x}.dtype" for c in srcs)
    ctx.ob("R2", gat, f"dtype <- Engine.dtype({x}.dtype)", ok, "resolved from the array's own dtype" if ok else "the array's own dtype is not what is resolved")
    for fname in ("infer_dataframe_statistics", "infer_series_statistics", "infer_index_statistics"):
        f = m.functions.get(fname)
        if f is None:
            raise AnalysisError(f"{fname} missing")
        ctx.touched(f)
        scopes = [f] + list(f.nested.values())
        found = False
        for g in scopes:
            ex = Expander(g.node)
            roots = set(g.positional) | set(f.positional)
            for d in _stat_dicts(g):
                found = True
                keys = _dict_keys(d)
                comp = _comp_env(d, g.node)
                chk = ex.expand(keys["checks"])
                chk_args = None
                if isinstance(chk, ast.Call) and callee_last(chk) == "_get_array_check_statistics":
                    helper = m.functions.get("_get_array_check_statistics")
                    hp = helper.positional if helper is not None else ["x", "data_type"]
                    a0 = chk.args[0] if chk.args else kw(chk, hp[0])
                    a1 = chk.args[1] if len(chk.args) > 1 else kw(chk, hp[1])
                    if a0 is not None and a1 is not None:
                        chk_args = (a0, a1)
                ok_c = chk_args is not None
                obj = chk_args[0] if ok_c else None
                obj_steps = _steps(obj, ex, comp) if obj is not None else None
                # nullable: bool(<obj>.isna().any()) directly, or <frame>.isna().any()[key] for the column named key
                nul = ex.expand(keys["nullable"])
                inner = nul
                while isinstance(inner, ast.Call) and isinstance(inner.func, ast.Name) and inner.func.id == "bool" and len(inner.args) == 1:
                    inner = inner.args[0]
                ok_n = False
                if isinstance(inner, ast.Call) and callee_last(inner) == "any" and isinstance(inner.func.value, ast.Call) \
                        and callee_last(inner.func.value) in ("isna", "isnull"):
                    ok_n = obj_steps is not None and _steps(inner.func.value.func.value, ex, comp) == obj_steps
                elif isinstance(inner, ast.Subscript):
                    base = ex.expand(inner.value)
                    if isinstance(base, ast.Call) and callee_last(base) == "any" and isinstance(base.func.value, ast.Call) \
                            and callee_last(base.func.value) in ("isna", "isnull"):
                        fr = _steps(base.func.value.func.value, ex, comp)
                        ok_n = obj_steps is not None and (fr[0], fr[1] + ["[]"]) == obj_steps
                # dtype: _get_array_type(<obj>) of the same object, and the same value is handed to the check statistics
                dt = keys["dtype"]
                dte = ex.expand(dt)
                ok_d = False
                if isinstance(dte, ast.Call) and callee_last(dte) == "_get_array_type" and dte.args:
                    ok_d = obj_steps is not None and _steps(dte.args[0], ex, comp) == obj_steps
                elif isinstance(dt, ast.Name) and dt.id in comp:
                    it, pos = comp[dt.id]
                    if isinstance(it, ast.Call) and callee_last(it) == "items" and pos == 1:
                        base = ex.expand(it.func.value)
                        if isinstance(base, ast.DictComp) and isinstance(base.value, ast.Call) and callee_last(base.value) == "_get_array_type":
                            s2 = _steps(base.value.args[0], ex, _comp_env_of(base))
                            ok_d = obj_steps is not None and s2[0] == obj_steps[0] and s2[1] == obj_steps[1]
                ok_c = ok_c and txt(ex.expand(chk_args[1])) == txt(dte) if ok_c else False
                ctx.ob("R2", g, f"{fname}: nullable <- isna().any() of the inferred object", ok_n, f"`{txt(nul)[:80]}`")
                ctx.ob("R2", g, f"{fname}: dtype <- _get_array_type of the inferred object", ok_d, f"`{txt(dte)[:80]}`")
                ctx.ob("R2", g, f"{fname}: checks <- _get_array_check_statistics(same object, same dtype)", ok_c, f"`{txt(chk)[:80]}`")
        if not found:
            raise AnalysisError(f"{fname}: statistics dict not found")


def r5_views(ctx):
    """Every object the statistics are computed from is a lossless view of the inferred data."""
    m = ctx.ix.module(STATS)
    n = 0
    for fname in ("infer_dataframe_statistics", "infer_series_statistics", "infer_index_statistics"):
        f = m.functions.get(fname)
        scopes = [f] + list(f.nested.values())
        helper_names = set(f.nested) | {"_get_array_type", "_get_array_check_statistics", "infer_index_statistics"}
        for g in scopes:
            ex = Expander(g.node)
            roots = set(g.positional)
            for c in calls_in(g.node):
                subject = None
                if isinstance(c.func, ast.Name) and c.func.id in helper_names and c.args:
                    subject = c.args[0]
                elif isinstance(c.func, ast.Attribute) and c.func.attr in ("isna", "isnull", "min", "max") and not c.args:
                    subject = c.func.value
                if subject is None:
                    continue
                ok, r, st = _view_ok(subject, g, ex, roots)
                n += 1
                ctx.ob("R5", g, f"{fname}: `{txt(c)[:60]}` reads a lossless view of `{sorted(roots)[0] if roots else '?'}`", ok,
                       f"{r}{''.join('.' + s for s in st)}" if ok else
                       f"the statistics are computed from `{txt(subject)[:60]}` (root {r}, path {st}): a projection such as .levels / .unique() / "
                       ".categories / dropna() forgets nulls, multiplicities or keeps unused values, so nullable / dtype / bounds describe "
                       "something other than the data and the inferred schema can reject it", g.loc(c))
    ctx.stats["data_views"] = n


def r3_parse(ctx):
    m = ctx.ix.module(STATS)
    f = m.functions.get("parse_check_statistics")
    if f is None:
        raise AnalysisError("parse_check_statistics missing")
    ctx.touched(f)
    stats_param = f.positional[0]
    # the iteration over the statistics may be a loop with appends or a comprehension; the construction may sit in a helper
    iters = []
    for s_ in ast.walk(f.node):
        if isinstance(s_, ast.For) and isinstance(s_.iter, ast.Call) and callee_last(s_.iter) == "items" and txt(s_.iter.func.value) == stats_param:
            iters.append((s_.target, s_, "loop"))
        elif isinstance(s_, (ast.ListComp, ast.GeneratorExp)):
            for g in s_.generators:
                if isinstance(g.iter, ast.Call) and callee_last(g.iter) == "items" and txt(g.iter.func.value) == stats_param:
                    iters.append((g.target, s_, "comprehension"))
    ok = False
    appended = False
    for target, body, kind in iters:
        key = target.elts[0].id if isinstance(target, ast.Tuple) and isinstance(target.elts[0], ast.Name) else None
        ctor = None
        for s in ast.walk(body):
            if isinstance(s, ast.Call) and callee_last(s) == "getattr" and len(s.args) >= 2 and txt(s.args[0]) == "Check" and txt(s.args[1]) == key:
                ok = True
                from ..index import parent
                st = parent(s)
                if isinstance(st, ast.Assign) and isinstance(st.targets[0], ast.Name):
                    ctor = st.targets[0].id
        if kind == "comprehension":
            # one element per statistics entry unless the comprehension filters
            appended = appended or not any(g.ifs for g in body.generators)
            continue
        for c in calls_in(body):
            if callee_last(c) == "append" and c.args:
                a = c.args[0]
                if (isinstance(a, ast.Call) and ((isinstance(a.func, ast.Name) and a.func.id == ctor) or callee_last(a) == "getattr"
                                                or any(isinstance(x, ast.Call) and callee_last(x) == "getattr" for x in ast.walk(a)))) or isinstance(a, ast.Name):
                    appended = True
    ctx.ob("R3", f, "statistics key k is turned into Check.<k>", ok, "getattr(Check, check_name)" if ok else "key is not mapped to the constructor of the same name")
    ctx.ob("R3", f, "every statistics entry yields one check", ok and appended, "constructed and appended" if ok and appended else "entries are dropped")


def r4_forwarding(ctx):
    m = ctx.ix.module(INFER)
    specs = [("infer_dataframe_schema", "Column", ["dtype", "checks", "nullable"]),
             ("_create_index", "Index", ["dtype", "checks", "nullable", "name"]),
             ("infer_series_schema", "SeriesSchema", ["dtype", "checks", "nullable", "name"])]
    for fname, ctor, attrs in specs:
        f = m.functions.get(fname)
        if f is None:
            raise AnalysisError(f"{fname} missing")
        ctx.touched(f)
        ex = Expander(f.node)
        calls = [c for c in calls_in(f.node) if callee_last(c) == ctor]
        if not calls:
            raise AnalysisError(f"{fname}: {ctor}(...) not found")
        c = calls[0]
        given = {k.arg: k.value for k in c.keywords if k.arg}
        if c.args:
            given.setdefault("dtype", c.args[0])
        for a in attrs:
            v = given.get(a)
            vv = ex.expand(v) if v is not None else None
            inner = vv
            if a == "checks" and isinstance(inner, ast.Call) and callee_last(inner) == "parse_check_statistics" and inner.args:
                inner = ex.expand(inner.args[0])
                wrapped = True
            else:
                wrapped = a != "checks"
            ok = inner is not None and wrapped and isinstance(inner, ast.Subscript) and isinstance(inner.slice, ast.Constant) and inner.slice.value == a
            ctx.ob("R4", f, f"{fname}: {ctor}({a}=statistics[{a!r}])", ok,
                   "forwarded unmodified" if ok else (f"{a} is not forwarded" if v is None else f"{a}={txt(vv)[:80]}"), f.loc(c))
    for fname in ("infer_dataframe_schema", "infer_series_schema"):
        f = m.functions[fname]
        ok = any(isinstance(kw(c, "coerce"), ast.Constant) and kw(c, "coerce").value is True for c in calls_in(f.node))
        ctx.ob("R4", f, f"{fname}: inferred schema coerces to the inferred dtypes", ok, "coerce=True" if ok else "coerce not set")


def r6_equal_bounds_serialise(ctx):
    """The inferred bounds are tight, so constant data yields `ge(v)` and `le(v)` with the same v: the consistency guard
    of parse_checks (run by to_yaml / statistics) may reject the inclusive pair only when min > max, strictly."""
    from ..cfg import cfg_of
    m = ctx.ix.module(STATS)
    f = m.functions.get("parse_checks")
    if f is None:
        raise AnalysisError("parse_checks missing")
    ctx.touched(f)
    cfg = cfg_of(f.node)
    consts = {n.value for n in ast.walk(f.node) if isinstance(n, ast.Constant) and isinstance(n.value, str)}
    inclusive_pair = {"greater_than_or_equal_to", "less_than_or_equal_to"} <= consts
    n = 0
    for s in function_stmts(f):
        if not isinstance(s, ast.Raise):
            continue
        for t, pol in cfg.guards(cfg.node_of(s).id):
            for c in ast.walk(t):
                if isinstance(c, ast.Compare) and len(c.ops) == 1 and isinstance(c.ops[0], (ast.Gt, ast.GtE, ast.Lt, ast.LtE)):
                    n += 1
                    strict = isinstance(c.ops[0], (ast.Gt, ast.Lt)) if pol else isinstance(c.ops[0], (ast.GtE, ast.LtE))
                    ok = strict or not inclusive_pair
                    ctx.ob("R6", f, f"bounds are called incompatible under `{txt(c)}`", ok,
                           "strict comparison: equal inclusive bounds (constant data) are consistent" if ok else
                           f"`{txt(c)}` is not strict while the inclusive pair greater_than_or_equal_to / less_than_or_equal_to is among the "
                           "checks it compares: a column with a single distinct value is inferred as ge(v) & le(v), and serialising that schema raises",
                           f.loc(s))
    if n == 0:
        ctx.ob("R6", f, "no bound-consistency guard in parse_checks", True, "nothing can reject equal bounds")


def r8_optional_statistics_entries(ctx):
    """The statistics producers write `None` for an entry that has nothing to describe (`"columns": stats if stats else None`
    for a frame without columns, `"checks": None`).  A consumer that iterates / subscripts such an entry has to test it for
    None first (or the producer must not write None): infer_schema(pd.DataFrame(index=[...])) otherwise raises
    AttributeError: 'NoneType' object has no attribute 'items' instead of inferring the (column-less) schema."""
    from ..cfg import cfg_of
    from ..util import enclosing_stmt
    st = ctx.ix.module(STATS)
    inf = ctx.ix.module(INFER)
    optional = {}   # (producer name, key) -> node
    from .c12 import _returned_dicts as _rd
    for f in st.all_functions:
        for d in _rd(f):
            for k, v in zip(d.keys, d.values):
                if isinstance(k, ast.Constant) and isinstance(v, ast.IfExp) and any(isinstance(b, ast.Constant) and b.value is None for b in (v.body, v.orelse)):
                    optional[(f.name, k.value)] = v
    n = 0
    for g in inf.all_functions:
        holders = {t.id: c for s_ in walk_no_nested(g.node) if isinstance(s_, ast.Assign) and isinstance(s_.value, ast.Call)
                   for t in s_.targets if isinstance(t, ast.Name) for c in [callee_last(s_.value)] if any(p == c for p, _ in optional)}
        if not holders:
            continue
        cfg = cfg_of(g.node)
        for x in ast.walk(g.node):
            if isinstance(x, ast.Subscript) and isinstance(x.value, ast.Name) and x.value.id in holders and isinstance(x.slice, ast.Constant) \
                    and (holders[x.value.id], x.slice.value) in optional:
                par = getattr(x, "_parent", None)
                deref = isinstance(par, ast.Attribute) or (isinstance(par, ast.Subscript) and par.value is x) or \
                    (isinstance(par, (ast.For, ast.comprehension)) and par.iter is x)
                if not deref:
                    continue
                n += 1
                node = cfg.node_of(enclosing_stmt(x))
                guards = [txt(t) for t, _ in (cfg.guards(node.id) if node is not None else [])]
                p2 = par
                while p2 is not None and not isinstance(p2, ast.stmt):
                    if isinstance(p2, ast.IfExp):
                        guards.append(txt(p2.test))
                    if isinstance(p2, ast.BoolOp):
                        guards += [txt(v) for v in p2.values]
                    p2 = getattr(p2, "_parent", None)
                ok = any(txt(x) in g_ and ("None" in g_ or g_.strip() == txt(x) or "not " in g_) for g_ in guards)
                ctx.ob("R8", g, f"{g.name}: `{txt(x)}` may be None (producer {holders[x.value.id]}) and is tested before use", ok,
                       f"guarded: {guards}" if ok else
                       f"`{txt(par)[:60]}` dereferences an entry that {holders[x.value.id]} sets to None for a frame without columns: infer_schema(pd.DataFrame(index=[1, 2])) "
                       "raises AttributeError instead of returning the column-less schema that accepts the frame", g.loc(x))
    ctx.stats["optional_statistics_dereferences"] = n


# the labels `pandas.api.types.infer_dtype` documents (pandas reference, "Returns"); the table is pandas', not pandera's
INFER_DTYPE_LABELS = ("string", "bytes", "floating", "integer", "mixed-integer", "mixed-integer-float", "decimal", "complex",
                      "categorical", "boolean", "datetime64", "datetime", "date", "timedelta64", "timedelta", "time", "period",
                      "mixed", "unknown-array", "empty")
# labels that are also numpy type names: `pandas_dtype(label)` resolves them without any registration
NUMPY_TYPE_NAMES = {"bytes", "complex", "datetime64", "timedelta64"}


def _registered_string_equivalents(ctx):
    out = set()
    for path in ("pandera/engines/pandas_engine.py", "pandera/engines/numpy_engine.py"):
        m = ctx.ix.module(path)
        for c in ast.walk(m.tree):
            if isinstance(c, ast.Call) and callee_last(c) == "register_dtype":
                for k in c.keywords:
                    if k.arg == "equivalents":
                        out |= {x.value for x in ast.walk(k.value) if isinstance(x, ast.Constant) and isinstance(x.value, str)}
            if isinstance(c, ast.Call) and callee_last(c) in ("add", "append", "update", "extend") and isinstance(c.func, ast.Attribute) \
                    and "equivalents" in txt(c.func.value):
                out |= {x.value for a in c.args for x in ast.walk(a) if isinstance(x, ast.Constant) and isinstance(x.value, str)}
    return out


def r9_infer_dtype_labels_total(ctx):
    """For object columns the statistics ask `infer_dtype` for a label and resolve it with the engine.  infer_dtype has a
    documented, finite label set; the resolution has to be total over it: a label is excluded by the guard in front of
    the call, or it is a registered string equivalent of the pandas / numpy engine (or a numpy type name), or the call
    is fenced (`except TypeError` that does not re-raise, keeping the object dtype).  Otherwise infer_schema raises
    TypeError instead of producing a schema: 'empty' is the label of every zero-row object column or index."""
    from ..cfg import cfg_of
    from ..util import enclosing_stmt
    st = ctx.ix.module(STATS)
    registered = _registered_string_equivalents(ctx)
    if len(registered) < 20:
        raise AnalysisError(f"engine string equivalents found: {len(registered)}")
    n = 0
    for f in st.all_functions:
        labels = {t.id for s_ in walk_no_nested(f.node) if isinstance(s_, ast.Assign) and isinstance(s_.value, ast.Call)
                  and callee_last(s_.value) == "infer_dtype" for t in s_.targets if isinstance(t, ast.Name)}
        if not labels:
            continue
        cfg = cfg_of(f.node)
        for c in calls_in(f.node):
            if not (callee_last(c) == "dtype" and c.args and isinstance(c.args[0], ast.Name) and c.args[0].id in labels):
                continue
            n += 1
            ctx.touched(f)
            stmt = enclosing_stmt(c)
            node = cfg.node_of(stmt)
            # fenced?
            fenced, p_ = False, getattr(stmt, "_parent", None)
            child = stmt
            while p_ is not None and not isinstance(p_, (ast.FunctionDef, ast.AsyncFunctionDef)):
                if isinstance(p_, ast.Try) and child in p_.body:
                    for h in p_.handlers:
                        names = {x.id if isinstance(x, ast.Name) else x.attr for x in ast.walk(h.type) if isinstance(x, (ast.Name, ast.Attribute))} if h.type is not None else set()
                        catches = h.type is None or names & {"TypeError", "Exception", "BaseException"}
                        reraises = any(isinstance(x, ast.Raise) for x in ast.walk(h))
                        if catches and not reraises:
                            fenced = True
                child, p_ = p_, getattr(p_, "_parent", None)
            excluded = set()
            var = c.args[0].id
            for t, pol in (cfg.guards(node.id) if node is not None else []):
                if isinstance(t, ast.Compare) and len(t.ops) == 1 and isinstance(t.left, ast.Name) and t.left.id == var:
                    consts = {x.value for x in ast.walk(t.comparators[0]) if isinstance(x, ast.Constant) and isinstance(x.value, str)}
                    op = t.ops[0]
                    if (isinstance(op, (ast.NotEq, ast.NotIn)) and pol) or (isinstance(op, (ast.Eq, ast.In)) and not pol):
                        excluded |= consts
                    elif (isinstance(op, (ast.Eq, ast.In)) and pol) or (isinstance(op, (ast.NotEq, ast.NotIn)) and not pol):
                        excluded |= set(INFER_DTYPE_LABELS) - consts
            for label in INFER_DTYPE_LABELS:
                ok = fenced or label in excluded or label in registered or label in NUMPY_TYPE_NAMES
                why = ("resolution fenced: an unresolvable label keeps the object dtype" if fenced else "excluded by the guard" if label in excluded else
                       "registered equivalent" if label in registered else "numpy type name")
                ctx.ob("R9", f, f"{f.short}: infer_dtype label {label!r} resolves (or is handled)", ok,
                       why if ok else
                       f"`{txt(c)}` is reached with the label {label!r}, which no engine dtype registers: Engine.dtype raises TypeError and infer_schema produces no schema "
                       "(pa.infer_schema(pd.DataFrame(columns=['a'])) -> TypeError: data type 'empty' not understood)", f.loc(c))
    if n < 1:
        raise AnalysisError("schema statistics: resolution of an infer_dtype label not found")


def run(ctx):
    from ..defassign import check_modules
    check_modules(ctx, "R7", ('pandera/schema_inference/pandas.py', 'pandera/schema_statistics/pandas.py'), "escapes infer_schema")
    r6_equal_bounds_serialise(ctx)
    r1_bounds(ctx)
    r2_provenance(ctx)
    r3_parse(ctx)
    r4_forwarding(ctx)
    r5_views(ctx)
    r8_optional_statistics_entries(ctx)
    r9_infer_dtype_labels_total(ctx)
    ctx.assume("Series.min()/max()/isna()/cat.categories have their documented meaning")
