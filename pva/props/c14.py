"""C14 - an inferred schema accepts the data it was inferred from: provenance of the
inferred statistics and their forwarding into the schema constructors."""

from __future__ import annotations

import ast

from ..index import AnalysisError, function_stmts, walk_no_nested
from ..util import callee_last, calls_in, kw, names_in, txt
from .c12 import _dict_keys, _returned_dicts

EXPLANATION = (
    "Static provenance analysis of pandera/schema_statistics/pandas.py and pandera/schema_inference/pandas.py (ast, "
    "def-use; nothing executed). (R1) _get_array_check_statistics emits only inclusive bound checks "
    "(greater_than_or_equal_to / less_than_or_equal_to) whose values are min()/max() of the very array it was given, "
    "and isin from that array's categories; (R2) in every statistics constructor the nullable flag is `isna().any()` "
    "of the same object, the dtype is Engine.dtype(x.dtype) of the same object, and the checks are computed from the "
    "same object with that dtype; (R3) parse_check_statistics maps every statistics key to the Check constructor of "
    "the same name; (R4) infer_dataframe_schema / infer_series_schema / _create_index forward dtype, checks, nullable "
    "(and name) from the statistics entry of the same key into the Column / Index / SeriesSchema constructors, and "
    "coerce=True keeps inferred dtypes reachable. NOT decided: numeric tightness (float rounding of large integers), "
    "NaT/inf, mixed-object inference, survival through serialisation on data."
)
LEVEL_RULE = "one obligation per statistics key / constructor keyword"
FLOORS = {"R1": 6, "R2": 9, "R3": 2, "R4": 10}

STATS = "pandera/schema_statistics/pandas.py"
INFER = "pandera/schema_inference/pandas.py"
INCLUSIVE = {"greater_than_or_equal_to": "min", "less_than_or_equal_to": "max"}
STRICT = {"greater_than", "less_than", "in_range", "equal_to", "not_equal_to"}


def r1_bounds(ctx):
    m = ctx.ix.module(STATS)
    f = m.functions.get("_get_array_check_statistics")
    if f is None:
        raise AnalysisError("_get_array_check_statistics missing")
    ctx.touched(f)
    arr = f.positional[0]
    dicts = [s.value for s in function_stmts(f) if isinstance(s, ast.Assign) and isinstance(s.value, ast.Dict)]
    n_bound = 0
    for d in dicts:
        keys = _dict_keys(d)
        for k, v in keys.items():
            if k in INCLUSIVE:
                n_bound += 1
                agg = INCLUSIVE[k]
                calls = [c for c in ast.walk(v) if isinstance(c, ast.Call) and isinstance(c.func, ast.Attribute) and c.func.attr in ("min", "max")]
                ok = len(calls) == 1 and calls[0].func.attr == agg and txt(calls[0].func.value) == arr
                ctx.ob("R1", f, f"{k} <- {arr}.{agg}()", ok,
                       "inclusive bound equal to the extreme of the same array" if ok else
                       f"value `{txt(v)}` is not {arr}.{agg}(): the extreme value of the data would violate (or not be tight against) the inferred bound")
            elif k == "isin":
                ok = any(isinstance(n, ast.Attribute) and n.attr == "tolist" for n in ast.walk(v)) or "categories" in txt(v)
                src = [s for s in function_stmts(f) if isinstance(s, ast.Assign) and txt(s.targets[0]) == "categories"]
                from_arr = bool(src) and all(arr in names_in(s.value) and "categories" in txt(s.value) for s in src)
                ctx.ob("R1", f, "isin <- categories of the same array", ok and from_arr,
                       f"categories taken from {arr}" if ok and from_arr else f"isin values are `{txt(v)}`")
            else:
                ctx.ob("R1", f, f"statistics key {k!r}", k not in STRICT,
                       "not a bound check" if k not in STRICT else
                       f"a strict / exact check ({k}) is inferred from the data: its own extreme values fail it")
    for d in dicts:
        keys = _dict_keys(d)
        if set(keys) & (set(INCLUSIVE) | STRICT):
            for k in INCLUSIVE:
                if k not in keys:
                    ctx.ob("R1", f, f"bound statistics contain {k}", False,
                           f"a bound statistics dict lacks the inclusive key {k!r} (keys: {sorted(keys)})")
    # early exit for all-null arrays
    ok = any(isinstance(s, ast.If) and "isna().all()" in txt(s.test) and isinstance(s.body[0], ast.Return) for s in f.node.body)
    ctx.ob("R1", f, "all-null arrays get no value checks", ok, "returns None when everything is null" if ok else "min()/max() of an all-null array would become NaN bounds")


def r2_provenance(ctx):
    m = ctx.ix.module(STATS)
    gat = m.functions.get("_get_array_type")
    ctx.touched(gat)
    x = gat.positional[0]
    first = [s for s in function_stmts(gat) if isinstance(s, ast.Assign)][0]
    ok = isinstance(first.value, ast.Call) and txt(first.value.func).endswith("Engine.dtype") and txt(first.value.args[0]) == f"{x}.dtype"
    ctx.ob("R2", gat, f"dtype <- Engine.dtype({x}.dtype)", ok, "resolved from the array's own dtype" if ok else f"`{txt(first)}`")
    # each statistics builder: nullable / dtype / checks derive from the same object
    for fname in ("infer_dataframe_statistics", "infer_series_statistics", "infer_index_statistics"):
        f = m.functions.get(fname)
        if f is None:
            raise AnalysisError(f"{fname} missing")
        ctx.touched(f)
        scopes = [f] + list(f.nested.values())
        found = False
        for g in scopes:
            for d in [n for n in walk_no_nested(g.node) if isinstance(n, ast.Dict)]:
                keys = _dict_keys(d)
                if not {"dtype", "nullable", "checks"} <= set(keys):
                    continue
                found = True
                chk = keys["checks"]
                obj = txt(chk.args[0]) if isinstance(chk, ast.Call) and chk.args else None
                ok_c = isinstance(chk, ast.Call) and callee_last(chk) == "_get_array_check_statistics" and len(chk.args) == 2
                nul = keys["nullable"]
                nt = txt(nul)
                # nullable: isna().any() of the same object (directly or via a precomputed frame-level isna().any())
                ok_n = "isna().any()" in nt and (obj is None or obj in nt)
                if not ok_n and isinstance(nul, ast.Call) and nul.args and isinstance(nul.args[0], ast.Subscript):
                    base = txt(nul.args[0].value)
                    defs = [s for s in function_stmts(g) if isinstance(s, ast.Assign) and txt(s.targets[0]) == base]
                    ok_n = bool(defs) and "isna().any()" in txt(defs[0].value) and g.positional[0] in names_in(defs[0].value)
                dt = keys["dtype"]
                ok_d = True
                if isinstance(dt, ast.Name):
                    defs = [s for s in walk_no_nested(g.node) if isinstance(s, ast.Assign) and txt(s.targets[0]) == dt.id]
                    ok_d = (bool(defs) and any(callee_last(c) == "_get_array_type" for c in calls_in(defs[0]))) or \
                        any(isinstance(n, ast.DictComp) and any(callee_last(c) == "_get_array_type" for c in calls_in(n)) for n in walk_no_nested(g.node))
                    # the same dtype is passed to the check statistics
                    ok_c = ok_c and txt(chk.args[1]) == dt.id
                ctx.ob("R2", g, f"{fname}: nullable <- isna().any() of the inferred object", ok_n, f"`{nt}`")
                ctx.ob("R2", g, f"{fname}: dtype <- _get_array_type of the inferred object", ok_d, f"`{txt(dt)}`")
                ctx.ob("R2", g, f"{fname}: checks <- _get_array_check_statistics(same object, same dtype)", ok_c, f"`{txt(chk)}`")
        if not found:
            raise AnalysisError(f"{fname}: statistics dict not found")


def r3_parse(ctx):
    m = ctx.ix.module(STATS)
    f = m.functions.get("parse_check_statistics")
    ctx.touched(f)
    loops = [s for s in function_stmts(f) if isinstance(s, ast.For) and ".items()" in txt(s.iter)]
    ok = False
    for l in loops:
        key = l.target.elts[0].id if isinstance(l.target, ast.Tuple) else None
        for s in ast.walk(l):
            if isinstance(s, ast.Assign) and isinstance(s.value, ast.Call) and callee_last(s.value) == "getattr" \
                    and txt(s.value.args[0]) == "Check" and txt(s.value.args[1]) == key:
                ok = True
    ctx.ob("R3", f, "statistics key k is turned into Check.<k>", ok, "getattr(Check, check_name)" if ok else "key is not mapped to the constructor of the same name")
    uses = any(callee_last(c) in ("check",) for c in calls_in(f.node))
    appended = any(callee_last(c) == "append" for c in calls_in(f.node))
    ctx.ob("R3", f, "every statistics entry yields one check", uses and appended, "constructed and appended" if uses and appended else "entries are dropped")


def r4_forwarding(ctx):
    m = ctx.ix.module(INFER)
    specs = [("infer_dataframe_schema", "Column", ["dtype", "checks", "nullable"]),
             ("_create_index", "Index", ["dtype", "checks", "nullable", "name"]),
             ("infer_series_schema", "SeriesSchema", ["dtype", "checks", "nullable", "name"])]
    for fname, ctor, attrs in specs:
        f = m.functions.get(fname)
        if f is None:
            raise AnalysisError(f"{fname} missing")
        ctx.touched(f)
        calls = [c for c in calls_in(f.node) if callee_last(c) == ctor]
        if not calls:
            raise AnalysisError(f"{fname}: {ctor}(...) not found")
        c = calls[0]
        given = {k.arg: k.value for k in c.keywords if k.arg}
        if c.args:
            given.setdefault("dtype", c.args[0])
        for a in attrs:
            v = given.get(a)
            t = txt(v) if v is not None else ""
            ok = v is not None and f'["{a}"]' in t.replace("'", '"')
            if a == "checks":
                ok = ok and isinstance(v, ast.Call) and callee_last(v) == "parse_check_statistics"
            ctx.ob("R4", f, f"{fname}: {ctor}({a}=statistics[{a!r}])", ok,
                   "forwarded unmodified" if ok else (f"{a} is not forwarded" if v is None else f"{a}={t}"), f.loc(c))
    for fname in ("infer_dataframe_schema", "infer_series_schema"):
        f = m.functions[fname]
        ok = any(isinstance(kw(c, "coerce"), ast.Constant) and kw(c, "coerce").value is True for c in calls_in(f.node))
        ctx.ob("R4", f, f"{fname}: inferred schema coerces to the inferred dtypes", ok, "coerce=True" if ok else "coerce not set")


def run(ctx):
    r1_bounds(ctx)
    r2_provenance(ctx)
    r3_parse(ctx)
    r4_forwarding(ctx)
    ctx.assume("Series.min()/max()/isna()/cat.categories have their documented meaning")
