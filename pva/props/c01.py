"""C01 - pandas validation verdict equals the declared schema semantics."""

from __future__ import annotations

import ast
import re

from ..absval import Evaluator, Raised, Unknown
from ..builtin import BUILTINS, check_functions, compare_with_spec
from ..cfg import cfg_of
from ..index import AnalysisError, function_stmts, parent, walk_no_nested
from ..pipeline import check_pipelines, no_dropped_result, parser_pipelines
from ..roles import schema_backend_classes, self_method
from ..util import (ifexp_guards, Expander, same_module_helpers, bool_atoms, callee_last, calls_in, canon_atom, enclosing_stmt, kw, names_in, path_condition,
                    show_condition, txt)

EXPLANATION = (
    "Static analysis of the pandas backend (ast, CFG, symbolic normal forms; nothing executed). (R1) both core-check "
    "pipelines reference every documented core check and no failed result can skip error_handler.collect_error (a "
    "bypass branch is accepted only when provably dead); (R2) each declarative attribute (nullable, unique, "
    "report_duplicates, required, regex, strict, ordered, unique_column_names, add_missing_columns, dtype, name, "
    "checks, default, coerce) is read, outside message strings, in the core function responsible for it; (R3) the "
    "15 built-in pandas predicates equal their documented meaning row by row over their option tables; (R4) "
    "report_duplicates maps to keep= first/last/False and reaches both duplicated() calls; (R5) nulls are dropped "
    "before a check only under ignore_na; (R6) every write to / replacement of the working frame inside the parser "
    "stages is unreachable when all parsing options are off; (R7) the engine root DataType.check methods compare the "
    "native type objects themselves (self.type == other.type), never a lossy rendering (str/repr/.name/.kind); (R8) each "
    "core check reads the data, outside its reporting fields, only through the observers that define its constraint "
    "(frozen table: nulls via hasnans/isna, duplicates via is_unique/duplicated, dtype via .dtype and dtype.check, ...). (R9) column_info: a non-regex column is present iff its name is a column of the frame and absent iff missing and required, a regex column is always expanded through get_regex_columns; (R10) a core check looping over several constraint units never overwrites a False verdict in a later iteration; (R11) CheckResult.check_passed aggregates the boolean check output, and (R12) CoreCheckResult.passed never depends on the failure cases built for the report (which drop nulls / are truncated). " 
    " R9 also requires ColumnInfo.sorted_column_names to be the de-duplicated sequence of matched names (a frame column matched by two schema components occurs once). " 
    " (R13) unique_column_names is decided on the number of duplicated labels, never on their truth value (labels 0 / '' are legal). " 
    "NOT decided: the biconditional accept(S,D) <=> D |= S "
    "itself - pandas semantics on data (NaN in duplicated, dtype equality, regex expansion on real labels)."
    ' R6 evaluates option guards through local definitions (a local that names the option test).'
    ' (R14) the per-component override `<component>.dtype = schema.dtype` of the pandas container backend is conditional on the component not being the index (premise: collect_schema_components appends schema.index to the list).'
)
LEVEL_RULE = "one obligation per pipeline / (attribute, function) / (check, option row) / write site"
FLOORS = {"R1": 12, "R2": 25, "R3": 20, "R4": 5, "R5": 2, "R6": 10, "R7": 6, "R8": 12, "R9": 3, "R10": 1, "R11": 3, "R12": 6}

PD = "pandera/backends/pandas/builtin_checks.py"
CONT = "pandera/backends/pandas/container.py::DataFrameSchemaBackend"
ARR = "pandera/backends/pandas/array.py::ArraySchemaBackend"
COL = "pandera/backends/pandas/components.py::ColumnBackend"
IDX = "pandera/backends/pandas/components.py::IndexBackend"
MIDX = "pandera/backends/pandas/components.py::MultiIndexBackend"

REQUIRED_CHECKS = {
    CONT: ["check_column_names_are_unique", "check_column_presence", "check_column_values_are_unique",
           "run_schema_component_checks", "run_checks"],
    ARR: ["check_name", "check_nullable", "check_unique", "check_dtype", "run_checks"],
}

ATTR_READERS = {  # attribute -> [(class, method)] (DESIGN appendix D)
    "nullable": [(ARR, "check_nullable"), (CONT, "add_missing_columns")],
    "unique": [(ARR, "check_unique"), (CONT, "check_column_values_are_unique")],
    "report_duplicates": [(ARR, "check_unique"), (CONT, "check_column_values_are_unique")],
    "required": [(CONT, "collect_column_info"), (CONT, "collect_schema_components"), (CONT, "add_missing_columns")],
    "regex": [(CONT, "collect_column_info"), (COL, "validate"), (CONT, "_coerce_dtype_helper")],
    "strict": [(CONT, "strict_filter_columns")],
    "ordered": [(CONT, "strict_filter_columns")],
    "unique_column_names": [(CONT, "check_column_names_are_unique")],
    "add_missing_columns": [(CONT, "add_missing_columns"), (CONT, "check_column_presence")],
    "dtype": [(ARR, "check_dtype"), (CONT, "run_schema_component_checks"), (ARR, "coerce_dtype")],
    "name": [(ARR, "check_name")],
    "checks": [(ARR, "run_checks"), (COL, "run_checks"), (CONT, "run_checks")],
    "default": [(CONT, "set_defaults"), (ARR, "validate"), (COL, "validate")],
    "coerce": [(CONT, "coerce_dtype"), (CONT, "_coerce_dtype_helper"), (ARR, "coerce_dtype"), (ARR, "validate"),
               (COL, "validate"), (IDX, "validate"), (MIDX, "validate")],
    "parsers": [(CONT, "run_parsers"), (ARR, "run_parsers")],
    "index": [(CONT, "collect_schema_components")],
    "columns": [(CONT, "collect_column_info"), (CONT, "collect_schema_components")],
}


def r1_wiring(ctx):
    ix = ctx.ix
    for cq, required in REQUIRED_CHECKS.items():
        cls = ix.cls(cq)
        pipes = check_pipelines(ix, cls)
        if not pipes:
            ctx.ob("R1", cq, "core check pipeline", False, "no `for check, args in core_checks` loop found: core checks are not run")
            continue
        for f, loop, fns, lname in pipes:
            names = [e.attr for e in fns if isinstance(e, ast.Attribute)]
            for r in required:
                ctx.ob("R1", f, f"{lname} contains self.{r}", r in names,
                       "referenced and called by the loop" if r in names else
                       f"core check {r} is not in {lname}: the constraint it implements is never evaluated")
            producers = []
            for k in [cls] + cls.all_subclasses():
                for e in fns:
                    t = self_method(ix, k, e)
                    if t is not None and t not in producers:
                        producers.append(t)
            no_dropped_result(ctx, "R1", f, loop, producers)
            # the loop calls the callable with its arguments and iterates over all results
            calls = [c for b in loop.body for c in calls_in(b) if isinstance(c.func, ast.Name)]
            ctx.touched(*producers)


def _live_reads(func, attr):
    out = []
    for n in walk_no_nested(func.node):
        hit = None
        if isinstance(n, ast.Attribute) and n.attr == attr and isinstance(n.ctx, ast.Load):
            hit = n
        elif isinstance(n, ast.Call) and callee_last(n) in ("getattr", "hasattr") and len(n.args) >= 2 \
                and isinstance(n.args[1], ast.Constant) and n.args[1].value == attr:
            hit = n
        if hit is None:
            continue
        p = parent(hit)
        in_msg = False
        while p is not None and not isinstance(p, ast.stmt):
            if isinstance(p, ast.JoinedStr):
                in_msg = True
            p = parent(p)
        if not in_msg:
            out.append(hit)
    for g in func.nested.values():
        out += _live_reads(g, attr)
    return out


def r2_attributes(ctx):
    ix = ctx.ix
    for attr, readers in ATTR_READERS.items():
        for cq, mname in readers:
            cls = ix.cls(cq)
            f = cls.method(mname)
            if f is None:
                raise AnalysisError(f"{cq}.{mname} not found (attribute {attr})")
            reads = []
            for g in same_module_helpers(ix, f):
                reads += _live_reads(g, attr)
                reads += _live_reads(g, "_" + attr) if not reads else []
            ctx.ob("R2", f, f"schema attribute `{attr}` is consulted by {f.short}", bool(reads),
                   f"{len(reads)} live read(s)" if reads else
                   f"{f.short} never reads `.{attr}` outside message strings: the declared constraint cannot influence it")


def r3_predicates(ctx):
    fns = check_functions(ctx.ix, PD)
    for name in BUILTINS:
        f = fns.get(name)
        if f is None:
            ctx.ob("R3", f"{PD}::{name}", f"pandas implementation of {name}", False, "missing")
            continue
        ctx.touched(f)
        for a, ok, detail in compare_with_spec(name, f.node, "pandas"):
            ctx.ob("R3", f, f"{name} under {a or 'no options'}", ok, detail)


def r4_duplicates(ctx):
    ix = ctx.ix
    cu = ix.func("pandera/backends/utils.py::convert_uniquesettings")
    ctx.touched(cu)
    for inp, want in (("exclude_first", "first"), ("exclude_last", "last"), ("all", False)):
        ev = Evaluator({}, {}, {})
        try:
            got = ev.call_function(cu.node, [inp], {})
        except Raised as r:
            got = f"raises {r.what}"
        if isinstance(got, Unknown):
            raise AnalysisError(f"convert_uniquesettings not evaluable: {got!r}")
        ctx.ob("R4", cu, f"report_duplicates={inp!r} -> keep", got == want and type(got) is type(want),
               f"evaluates to {got!r}, pandas keep= must be {want!r}")
    for cq, mname in ((ARR, "check_unique"), (CONT, "check_column_values_are_unique")):
        f = ix.cls(cq).method(mname)
        fam = same_module_helpers(ix, f)
        dups = [(g, c) for g in fam for c in calls_in(g.node) if callee_last(c) == "duplicated"]
        if not dups:
            ctx.ob("R4", f, "duplicated() call", False, "uniqueness is not computed with duplicated()")
            continue
        defs = {}
        for s in function_stmts(f):
            if isinstance(s, ast.Assign) and len(s.targets) == 1 and isinstance(s.targets[0], ast.Name):
                defs.setdefault(s.targets[0].id, []).append(s.value)
        for g, c in dups:
            k = kw(c, "keep")
            ok = False
            detail = "duplicated() called without keep=: pandas default keep='first' ignores report_duplicates"
            if k is not None and g is not f and isinstance(k, ast.Name) and k.id in g.params:
                # keep= is a parameter of the helper: what the check passes for it at the call site
                pi = [p_ for p_ in g.params if p_ not in ("self", "cls")].index(k.id)
                vals = []
                for cc in calls_in(f.node):
                    if callee_last(cc) == g.name:
                        v = kw(cc, k.id) or (cc.args[pi] if pi < len(cc.args) else None)
                        if v is not None:
                            vals.append(v)
                k = vals[0] if vals else k
            if k is not None:
                srcs = defs.get(k.id, []) if isinstance(k, ast.Name) else [k]
                ok = bool(srcs) and all(isinstance(v, ast.Call) and callee_last(v) == "convert_uniquesettings" and v.args
                                        and txt(v.args[0]).endswith(".report_duplicates") for v in srcs)
                detail = "keep=convert_uniquesettings(schema.report_duplicates)" if ok else f"keep={txt(k)} does not derive from schema.report_duplicates"
            ctx.ob("R4", f, f"`{txt(c)[:50]}` keep policy", ok, detail, f.loc(c))


def r14_frame_dtype_overrides_columns_only(ctx):
    """`DataFrameSchema(dtype=T)` "overrides the data types specified in any of the columns"; the index component declares
    its own dtype.  The per-component override in the pandas container backend runs over a list that ends with
    `schema.index`: unguarded, the frame dtype replaces the index's dtype too - Index(str) next to dtype=int rejects a
    string index and accepts an integer one.  Decided: the store `<component>.dtype = schema.dtype` is conditional on the
    component not being the index."""
    cont = ctx.ix.cls(CONT)
    coll = cont.lookup("collect_schema_components")
    premise = coll is not None and any(isinstance(c, ast.Call) and callee_last(c) == "append" and c.args and txt(c.args[0]).endswith(".index")
                                       for c in ast.walk(coll.node))
    n = 0
    for f in [x for lst in cont.methods.values() for x in lst]:
        ex = None
        for st in function_stmts(f):
            if not (isinstance(st, ast.Assign) and len(st.targets) == 1 and isinstance(st.targets[0], ast.Attribute) and st.targets[0].attr == "dtype"
                    and txt(st.value).endswith("schema.dtype")):
                continue
            n += 1
            ctx.touched(f)
            cfg = cfg_of(f.node)
            ex = ex or Expander(f.node)
            node = cfg.node_of(st)
            guards = cfg.guards(node.id) if node is not None else []
            texts = []
            for t, pol in guards:
                texts.append(txt(t))
                texts += [txt(d) for d in ex.closure(t)]
            blob = " ".join(texts)
            guarded = ".index" in blob or "is_index" in blob or "Index" in blob or "isinstance(" in blob and "Column" in blob
            ok = guarded or not premise
            ctx.ob("R14", f, f"{f.short}: the dataframe-level dtype overrides the dtype of column components only", ok,
                   "the index component is excluded" if ok else
                   f"`{txt(st)}` is applied to every schema component, and the list ends with schema.index: DataFrameSchema({{'a': Column()}}, dtype=int, index=Index(str)) "
                   "rejects a frame with a string index and accepts one with an integer index", f.loc(st))
    if n < 1:
        raise AnalysisError("pandas container backend: the dataframe-level dtype override not found")


def r5_nulls(ctx):
    ix = ctx.ix
    cls = ix.cls("pandera/backends/pandas/checks.py::PandasCheckBackend")
    keep = lambda t, n: "ignore_na" in t
    for name in ("preprocess_field", "preprocess_table_with_key", "preprocess_table"):
        f = cls.method(name)
        if f is None:
            raise AnalysisError(f"PandasCheckBackend.{name} missing")
        cfg = cfg_of(f.node)
        for c in calls_in(f.node):
            if callee_last(c) == "dropna":
                pc = path_condition(cfg, cfg.node_of(enclosing_stmt(c)).id, keep=keep, extra=ifexp_guards(c))
                ok = pc == (("self.check.ignore_na",), frozenset({(True,)}))
                ctx.ob("R5", f, f"`{txt(c)}` before the check", ok,
                       "only under ignore_na" if ok else f"nulls dropped under {show_condition(pc)}", f.loc(c))


# ---- R6 ------------------------------------------------------------------------------
def _off_value(text):
    """Truth value of an atom when every parsing option is switched off (None = unknown)."""
    t = text
    if re.search(r"\.add_missing_columns$", t):
        return False
    if re.search(r"\.strict == 'filter'$", t) or re.search(r"^'filter' == \S+\.strict$", t):
        return False
    if re.search(r"\.(_)?coerce$", t) and "(" not in t:
        return False
    if re.search(r"^any\(.*\.coerce\b.*\)$", t):
        return False
    if re.search(r"\.default is None$", t):
        return True
    if re.search(r"\.parsers$", t):
        return False
    if "drop_invalid_rows" in t:
        return False
    return None


def _kleene(e, val):
    if isinstance(e, ast.BoolOp):
        vs = [_kleene(v, val) for v in e.values]
        if isinstance(e.op, ast.And):
            if any(v is False for v in vs):
                return False
            return True if all(v is True for v in vs) else None
        if any(v is True for v in vs):
            return True
        return False if all(v is False for v in vs) else None
    if isinstance(e, ast.UnaryOp) and isinstance(e.op, ast.Not):
        v = _kleene(e.operand, val)
        return None if v is None else (not v)
    t, pol = canon_atom(e)
    v = val(t)
    return None if v is None else (v if pol else not v)


def _unreachable_when_off(cfg, nid, stmt, ex=None):
    for test, pol in cfg.guards(nid):
        v = _kleene(test, _off_value)
        if v is None and ex is not None:
            # the guard may be a local that names the option test (`filter_unknown = schema.strict == "filter"`)
            try:
                v = _kleene(ex.expand(test), _off_value)
            except Exception:   # expansion is best effort
                v = None
        if v is not None and v != pol:
            return True, f"guarded by `{txt(test)}`"
    # inside a loop over schema.parsers ?
    p = parent(stmt)
    while p is not None:
        if isinstance(p, ast.For) and ".parsers" in txt(p.iter):
            return True, f"inside `for ... in {txt(p.iter)}`"
        if isinstance(p, ast.For) and isinstance(p.iter, (ast.ListComp, ast.GeneratorExp)):
            for g in p.iter.generators:
                for cond in g.ifs:
                    v = _kleene(cond, _off_value)
                    if v is False:
                        return True, f"loop filtered by `{txt(cond)}`"
        p = parent(p)
    return False, ""


def _data_write_sites(f, data_names):
    sites = []
    for s in function_stmts(f):
        if isinstance(s, (ast.Assign, ast.AugAssign)):
            tgts = s.targets if isinstance(s, ast.Assign) else [s.target]
            for t in tgts:
                if isinstance(t, (ast.Subscript, ast.Attribute)) and isinstance(t.value, ast.Name) and t.value.id in data_names:
                    sites.append((s, f"`{txt(t)} = ...`"))
                elif isinstance(t, ast.Name) and t.id in data_names and isinstance(s, ast.Assign):
                    v = s.value
                    if isinstance(v, ast.Name) and v.id in data_names:
                        continue
                    if isinstance(v, ast.Call) and callee_last(v) in ("copy", "preprocess", "add_schema", "clone"):
                        continue
                    if isinstance(v, ast.Call) and isinstance(v.func, ast.Attribute) and txt(v.func.value) == "self" \
                            and v.func.attr in STAGES:
                        continue  # the stage's own writes are analysed in the stage
                    sites.append((s, f"`{txt(t)} = {txt(v)[:40]}`"))
        elif isinstance(s, ast.Expr) and isinstance(s.value, ast.Call):
            c = s.value
            ip = kw(c, "inplace")
            if ip is not None and isinstance(ip, ast.Constant) and ip.value is True and isinstance(c.func, ast.Attribute) \
                    and isinstance(c.func.value, ast.Name) and c.func.value.id in data_names:
                sites.append((s, f"`{txt(c)[:50]}`"))
        elif isinstance(s, ast.Return) and isinstance(s.value, ast.Name) and s.value.id not in data_names \
                and s.value.id not in ("self",):
            sites.append((s, f"`{txt(s)}`"))
    return sites


STAGES = {"run_parsers", "set_default", "set_defaults", "coerce_dtype", "add_missing_columns", "strict_filter_columns",
          "_coerce_dtype_helper"}


def r6_parse_on_request(ctx):
    ix = ctx.ix
    cont, arr = ix.cls(CONT), ix.cls(ARR)
    targets = []
    for f, loop, fns, lname in parser_pipelines(ix, cont):
        for e in fns:
            t = self_method(ix, cont, e)
            if t is not None:
                targets.append((t, {t.positional[1]}))
    for cq, names in ((CONT, ["run_parsers", "_coerce_dtype_helper"]), (ARR, ["set_default", "coerce_dtype", "run_parsers", "validate"]),
                      (COL, ["validate"]), (IDX, ["validate"]), (MIDX, ["validate"])):
        for n in names:
            f = ix.cls(cq).method(n)
            if f is None:
                raise AnalysisError(f"{cq}.{n} missing")
            dn = {p for p in f.positional if p in ("check_obj", "obj")}
            targets.append((f, dn))
    seen = set()
    for f, data_names in targets:
        if f.qual in seen:
            continue
        seen.add(f.qual)
        cfg = cfg_of(f.node)
        ex = Expander(f.node)
        for s, label in _data_write_sites(f, data_names):
            n = cfg.node_of(s)
            if n is None:
                continue
            # inside set_default the whole function is only called under `default is not None`
            ok, why = _unreachable_when_off(cfg, n.id, s, ex)
            if not ok:
                ok, why = _callers_guard(ix, f)
            ctx.ob("R6", f, f"parser write {label}", ok,
                   f"not reachable with every parsing option off ({why})" if ok else
                   "this write/replacement of the working frame is reachable when add_missing_columns, strict='filter', "
                   "default, coerce and parsers are all off: validate would return an object different from its input",
                   f.loc(s))


def _callers_guard(ix, f):
    """All call sites of self.<f.name> in the same class are unreachable when options are off."""
    cls = f.cls
    sites = []
    for lst in cls.methods.values():
        for g in lst:
            for c in calls_in(g.node):
                if isinstance(c.func, ast.Attribute) and c.func.attr == f.name and txt(c.func.value) == "self":
                    sites.append((g, c))
    if not sites:
        return False, ""
    for g, c in sites:
        cfg = cfg_of(g.node)
        st = enclosing_stmt(c)
        ok, why = _unreachable_when_off(cfg, cfg.node_of(st).id, st)
        if not ok:
            return False, ""
    return True, f"every call of self.{f.name} is guarded by a parsing option"


LOSSY = {"str", "repr", "hash", "id", "type", "format", "len"}
LOSSY_ATTRS = {"name", "kind", "char", "__class__", "__name__", "itemsize", "str", "base"}
ENGINE_ROOTS = ["pandera/engines/pandas_engine.py::DataType", "pandera/engines/polars_engine.py::DataType",
                "pandera/engines/pyspark_engine.py::DataType"]


def r7_dtype_equality(ctx):
    """The dtype verdict of the engine root DataType.check is equality of the native type objects: every comparison
    whose two sides are the same expression over `self` and over the other dtype compares the objects themselves,
    not a lossy rendering (str(), repr(), .name, .kind, type()) under which distinct dtypes coincide."""
    ix = ctx.ix
    for cq in ENGINE_ROOTS:
        cls = ix.cls(cq)
        f = cls.method("check") if cls is not None else None
        if f is None:
            raise AnalysisError(f"{cq}.check not found")
        ctx.touched(f)
        other = f.positional[1]
        twins = []
        for c in walk_no_nested(f.node):
            if isinstance(c, ast.Compare) and len(c.ops) == 1 and isinstance(c.ops[0], (ast.Eq, ast.NotEq)):
                l, r = txt(c.left), txt(c.comparators[0])
                if ("self" in names_in(c.left) and other in names_in(c.comparators[0])) or \
                        ("self" in names_in(c.comparators[0]) and other in names_in(c.left)):
                    twins.append(c)
        direct = [c for c in twins if {txt(c.left), txt(c.comparators[0])} == {"self.type", f"{other}.type"}]
        ctx.ob("R7", f, f"{cls.name}.check compares self.type with {other}.type", bool(direct),
               "native type objects compared with ==" if direct else
               f"no `self.type == {other}.type` comparison: comparisons found {[txt(c) for c in twins]}; dtypes that differ only in "
               "their parameters (categories, ordered, storage, time zone) are no longer told apart", f.loc(f.node))
        for c in twins:
            bad = None
            for side in (c.left, c.comparators[0]):
                for x in ast.walk(side):
                    if isinstance(x, ast.Call) and callee_last(x) in LOSSY:
                        bad = f"{callee_last(x)}(...)"
                    if isinstance(x, ast.Attribute) and x.attr in LOSSY_ATTRS:
                        bad = f".{x.attr}"
            ctx.ob("R7", f, f"{cls.name}.check: `{txt(c)[:70]}`", bad is None,
                   "compares the objects themselves" if bad is None else
                   f"compares a lossy rendering ({bad}) of the dtypes: distinct dtypes with the same rendering (all CategoricalDtype "
                   "print as 'category', string[python]/string[pyarrow] as 'string') are accepted for one another", f.loc(c))


REPORT_KW = {"message", "failure_cases", "check", "check_output", "original_exc"}
OBSERVERS = {
    (ARR, "check_name"): {"name"},
    (ARR, "check_nullable"): {"hasnans", "isna"},
    (ARR, "check_unique"): {"is_unique", "duplicated", "to_frame", "index", "arg:type"},
    (ARR, "check_dtype"): {"dtype", "arg:check"},
    (CONT, "check_column_names_are_unique"): {"columns"},
    (CONT, "check_column_presence"): set(),
    (CONT, "check_column_values_are_unique"): {"duplicated", "in", "arg:type"},
}


def r8_verdict_observers(ctx):
    """Each core check decides its verdict from the data only through the observers that define its constraint (nulls
    through hasnans/isna, duplicates through is_unique/duplicated, dtype through .dtype and dtype.check, ...). Any other
    read of the data object outside the reporting fields (message, failure_cases) is a shortcut that changes which
    data is accepted."""
    ix = ctx.ix
    for (cq, mname), allowed in OBSERVERS.items():
        f = ix.cls(cq).method(mname)
        if f is None:
            raise AnalysisError(f"{cq}.{mname} not found")
        ctx.touched(f)
        data = f.positional[1]
        seen = {}

        def collect(g, dname, depth=0):
            """observers through which function g reads the object bound to its local / parameter `dname`"""

            def report_ctx(n, report_only):
                p = parent(n)
                if isinstance(p, ast.Compare) and all(isinstance(o, (ast.Is, ast.IsNot)) for o in p.ops):
                    return True
                while p is not None and not isinstance(p, ast.stmt):
                    if isinstance(p, ast.keyword) and p.arg in REPORT_KW:
                        return True
                    if isinstance(p, ast.JoinedStr):
                        return True
                    p = parent(p)
                return isinstance(p, ast.Assign) and all(isinstance(t, ast.Name) and t.id in report_only for t in p.targets)

            # names used for reporting only (greatest fixpoint): every load is in a reporting context
            report_only = {t.id for st in function_stmts(g) if isinstance(st, ast.Assign) for t in st.targets if isinstance(t, ast.Name)}
            changed = True
            while changed:
                changed = False
                for n in walk_no_nested(g.node):
                    if isinstance(n, ast.Name) and isinstance(n.ctx, ast.Load) and n.id in report_only and not report_ctx(n, report_only):
                        report_only.discard(n.id)
                        changed = True
            for n in walk_no_nested(g.node):
                if not (isinstance(n, ast.Name) and n.id == dname and isinstance(n.ctx, ast.Load)):
                    continue
                if report_ctx(n, report_only):
                    continue
                q = parent(n)
                if depth > 0 and isinstance(q, ast.Subscript) and q.value is n:
                    st_ = enclosing_stmt(n)
                    if isinstance(st_, ast.Return) or (isinstance(st_, ast.Assign) and all(
                            isinstance(t, ast.Name) and all(isinstance(enclosing_stmt(u), ast.Return) for u in walk_no_nested(g.node)
                                                            if isinstance(u, ast.Name) and u.id == t.id and isinstance(u.ctx, ast.Load))
                            for t in st_.targets)):
                        continue   # a selection handed back to the caller, judged there under the name it is unpacked into
                if isinstance(q, ast.Attribute):
                    obs = q.attr
                elif isinstance(q, ast.Subscript) and q.value is n:
                    obs = "[]"
                elif isinstance(q, ast.Compare):
                    obs = "in" if any(isinstance(o, (ast.In, ast.NotIn)) for o in q.ops) else "cmp"
                elif isinstance(q, ast.Call):
                    # the object handed to a private helper living next to this function: what the helper reads counts
                    h = None
                    if depth < 2:
                        for cand in same_module_helpers(ix, g, depth=1)[1:]:
                            if callee_last(q) == cand.name:
                                h = cand
                    if h is not None:
                        params = [p_ for p_ in h.params if p_ not in ("self", "cls")]
                        pos = [i for i, a_ in enumerate(q.args) if a_ is n]
                        pname = None
                        if pos and pos[0] < len(params):
                            pname = params[pos[0]]
                        for k_ in q.keywords:
                            if k_.value is n:
                                pname = k_.arg
                        if pname is not None:
                            collect(h, pname, depth + 1)
                            continue
                    obs = "arg:" + (callee_last(q) or "?")
                else:
                    obs = type(q).__name__
                seen.setdefault(obs, n)

        collect(f, data)
        for obs, n in sorted(seen.items()):
            ok = obs in allowed
            ctx.ob("R8", f, f"{f.short} reads the data through `{obs}`", ok,
                   "an observer of the constraint this check implements" if ok else
                   f"`{txt(enclosing_stmt(n))[:80]}` makes the verdict of {f.short} depend on `{data}` through `{obs}`, which is not one of the "
                   f"observers of this constraint ({sorted(allowed)}): data violating the declared constraint can be accepted (or valid data "
                   "rejected) on that basis", f.loc(n))
        missing = [o for o in allowed if o not in seen and not o.startswith("arg:type") and o not in ("to_frame", "index")]
        ctx.ob("R8", f, f"{f.short} observes the data it judges", not missing or not allowed,
               "all defining observers are read" if not missing else f"never reads the data through {missing}")


COLUMN_INFO_SPEC = {
    # destination field of ColumnInfo -> the condition (over the schema column and the frame's columns) under which a
    # column name / pattern is recorded, written as the documentation of required / regex defines it
    "absent_column_names": ["[not(KEY_SCHEMA_columns in DATA.columns) and not(SCHEMA.columns[KEY_SCHEMA_columns].regex) and SCHEMA.columns[KEY_SCHEMA_columns].required]"],
    "expanded_column_names": ["[KEY_SCHEMA_columns in DATA.columns and not(SCHEMA.columns[KEY_SCHEMA_columns].regex)]", "[SCHEMA.columns[KEY_SCHEMA_columns].regex]"],
    "regex_match_patterns": ["[SCHEMA.columns[KEY_SCHEMA_columns].regex]"],
}


def r9_column_info(ctx):
    """Which declared columns count as present / absent / regex-expanded (pandas): a non-regex column is present iff its
    name is a column of the frame, absent iff it is missing *and* required; a regex column is always expanded through
    get_regex_columns (never looked up by its pattern text)."""
    from .c08 import PDC, _effect_sites, _schema_cond, _twin_view
    from ..cfg import cfg_of as _cfg_of
    f = ctx.ix.cls(PDC).lookup("collect_column_info")
    if f is None:
        raise AnalysisError("pandas collect_column_info missing")
    ctx.touched(f)
    view = _twin_view(f)
    cfg = view.cfg
    got = {}
    for kind, key, st in _effect_sites(f, view.acc):
        if kind == "append":
            got.setdefault(key, []).append(show_condition(_schema_cond(cfg, cfg.node_of(st).id, view, True)))
    for key, want in COLUMN_INFO_SPEC.items():
        have = sorted(got.get(key, []))
        ok = have == sorted(want)
        ctx.ob("R9", f, f"collect_column_info records {key} under the documented condition", ok,
               f"{have}" if ok else f"recorded under {have}, documented meaning {sorted(want)}: presence / absence / regex expansion of declared "
               "columns is decided differently, so required / regex / strict verdicts change for some frames")


DEDUP_CTORS = {"fromkeys", "unique", "OrderedDict", "drop_duplicates"}


def r9_sorted_names_distinct(ctx):
    """`ordered=True` walks the frame's columns against `column_info.sorted_column_names`, one schema position per frame
    column.  The list of matched names is collected per schema component, so a frame column matched by two components (a
    literal and a regex, two overlapping patterns) occurs twice in it: `sorted_column_names` has to be the de-duplicated
    sequence (dict.fromkeys keeps first occurrences in order), otherwise the iterator lags behind and a correctly
    ordered frame is reported out-of-order."""
    from .c08 import PDC
    f = ctx.ix.cls(PDC).lookup("collect_column_info")
    ex = Expander(f.node)
    calls = [c for c in calls_in(f.node) if callee_last(c) == "ColumnInfo"]
    if not calls:
        raise AnalysisError("collect_column_info builds no ColumnInfo")
    for c in calls:
        v = kw(c, "sorted_column_names")
        if v is None:
            ctx.ob("R9", f, "ColumnInfo.sorted_column_names is given", False, "keyword missing", f.loc(c))
            continue
        e = ex.expand(v)
        ok = any(isinstance(x, ast.Call) and callee_last(x) in DEDUP_CTORS for x in ast.walk(e)) or \
            any(isinstance(x, (ast.DictComp, ast.SetComp)) for x in ast.walk(e))
        ctx.ob("R9", f, "collect_column_info: sorted_column_names holds each matched column once, in schema order", ok,
               f"`{txt(v)[:50]}` de-duplicates the matched names" if ok else
               f"`{txt(v)[:50]}` is the raw list of matched names: a frame column selected by two schema components is listed twice, the ordered check "
               "compares every following column with the wrong schema position and rejects a correctly ordered frame", f.loc(c))


def r10_monotone_verdict(ctx):
    """A core check that loops over several constraint units (the column sets of a joint uniqueness declaration) fails as
    soon as one unit fails: once the verdict variable is False no later iteration may overwrite it.  After a falsifying
    assignment the loop must be left (break / return), or the next iteration must be unreachable while it is False."""
    from ..cfg import cfg_of
    ix = ctx.ix
    n = 0
    for bc in schema_backend_classes(ix, which=("pandas",)):
        for lst in bc.methods.values():
            for f in lst:
                verdict = {kw(c, "passed").id for c in calls_in(f.node) if callee_last(c) == "CoreCheckResult" and isinstance(kw(c, "passed"), ast.Name)}
                if not verdict:
                    continue
                cfg = None
                for loop in [x for x in function_stmts(f) if isinstance(x, (ast.For, ast.While))]:
                    assigns = [a for a in ast.walk(loop) if isinstance(a, ast.Assign) and len(a.targets) == 1 and isinstance(a.targets[0], ast.Name)
                               and a.targets[0].id in verdict]
                    if not assigns:
                        continue
                    cfg = cfg or cfg_of(f.node)
                    head = cfg.node_of(loop)
                    for a in assigns:
                        n += 1
                        var = a.targets[0].id
                        node = cfg.node_of(a)
                        back_sources = [m for m in cfg.reachable(node.id, skip_labels=("exc", "fin-exc"))
                                        if any(b == head.id and lab == "back" for b, lab in cfg.succ[m])]
                        bad = []
                        for m in back_sources:
                            if isinstance(a.value, ast.Constant) and a.value.value is False:
                                bad.append(m)   # the loop goes on after the verdict was set to False
                                continue
                            pc = path_condition(cfg, m, keep=lambda t, nn, var=var: t == var)
                            # the next iteration may start only while the verdict is still True
                            if not (pc[0] == (var,) and pc[1] == frozenset({(True,)})):
                                bad.append(m)
                        ctx.ob("R10", f, f"{f.short}: `{txt(a)[:50]}` inside the loop cannot be overwritten after a failure", not bad,
                               "a failing unit leaves the loop (or the next iteration is reached only while the verdict is True)" if not bad else
                               f"after `{txt(a)[:40]}` the loop can start another iteration although the verdict may be False (line "
                               f"{cfg.nodes[bad[0]].lineno}): a later constraint unit that passes resets the verdict, so data violating an earlier "
                               "unit is accepted", f.loc(a))
    if n == 0:
        raise AnalysisError("no loop-carried verdict found in the pandas core checks")


def r11_verdict_from_output(ctx):
    """The verdict of a check (CheckResult.check_passed) is an aggregate of the boolean check output; the failure cases
    are a *report* derived from the same output (after dropping nulls / truncation), never the source of the verdict."""
    from ..util import Expander
    from .c19 import PCB
    cls = ctx.ix.cls(PCB)
    n = 0
    for f in [x for lst in cls.methods.values() for x in lst]:
        ex = None
        for c in calls_in(f.node):
            if callee_last(c) != "CheckResult":
                continue
            out = c.args[0] if c.args else kw(c, "check_output")
            passed = c.args[1] if len(c.args) > 1 else kw(c, "check_passed")
            if out is None or passed is None:
                continue
            ex = ex or Expander(f.node)
            n += 1
            pc = ex.closure(passed)
            from_cases = [d for d in pc if any(isinstance(x, ast.Name) and "failure_case" in x.id for x in ast.walk(d))
                          or any(isinstance(x, ast.Attribute) and "failure_case" in x.attr for x in ast.walk(d))]
            out_names = {x.id for d in ex.closure(out) for x in ast.walk(d) if isinstance(x, ast.Name)} - {"self"}
            shares = any(isinstance(x, ast.Name) and x.id in out_names for d in pc for x in ast.walk(d))
            ok = shares and not from_cases
            ctx.ob("R11", f, f"{f.name}: check_passed is an aggregate of the check output", ok,
                   f"`{txt(passed)[:60]}` derives from the output" if ok else
                   f"check_passed = `{txt(ex.expand(passed))[:80]}` is computed from the failure cases (or not from the check output): failure cases "
                   "drop nulls and may be truncated, so a failing null cell (ignore_na=False) or a truncated report flips the verdict", f.loc(c))
    if n == 0:
        raise AnalysisError("no CheckResult construction found in the pandas check backend")


def r12_verdict_not_from_report(ctx, rule="R12", only=None, which=("pandas",)):
    """The verdict of a core check (CoreCheckResult.passed) never depends on the failure cases built for the report:
    reshape_failure_cases drops nulls by default and reports may be truncated, so `failure_cases.empty` is not `no
    violation`."""
    ix = ctx.ix
    n = 0
    for bc in schema_backend_classes(ix, which=which):
        for lst in bc.methods.values():
            for f in lst:
                res = [c for c in calls_in(f.node) if callee_last(c) == "CoreCheckResult"]
                if not res or not (f.name.startswith("check_") or f.name == "run_check"):
                    continue   # core checks and the user-check runner: the places where a verdict is formed
                if only is not None and f.name not in only:
                    continue
                cfg = cfg_of(f.node)
                ex = Expander(f.node)
                for c in res:
                    p_ = kw(c, "passed")
                    sites = []
                    if isinstance(p_, ast.Name):
                        sites = [a for a in function_stmts(f) if isinstance(a, ast.Assign) and any(isinstance(t, ast.Name) and t.id == p_.id for t in a.targets)]
                    elif p_ is not None:
                        sites = [enclosing_stmt(c)]
                    for st in sites:
                        node = cfg.node_of(st)
                        if node is None:
                            continue
                        n += 1
                        guards = [t for t, _ in cfg.guards(node.id)]
                        val = st.value if isinstance(st, ast.Assign) else p_
                        exprs = guards + ([val] if val is not None else [])
                        bad = [e for e in exprs for d in ex.closure(e)
                               if any((isinstance(x, ast.Name) and "failure_case" in x.id) or (isinstance(x, ast.Call) and callee_last(x) == "reshape_failure_cases")
                                      for x in ast.walk(d))]
                        ctx.ob(rule, f, f"{f.short}: verdict at `{txt(st)[:50]}` does not depend on the failure cases", not bad,
                               "decided from the data / schema only" if not bad else
                               f"the verdict is decided under / from `{txt(bad[0])[:70]}`, which derives from the failure cases of the report: "
                               "reshape_failure_cases drops null rows, so duplicates or violations that consist of nulls leave an empty report and pass",
                               f.loc(st))
    if n == 0:
        raise AnalysisError("no core-check verdict site found")


def r13_label_verdict_not_by_truthiness(ctx):
    """`unique_column_names` fails when some label occurs twice.  Whether it does is a question about *how many*
    duplicated labels there are, not about the labels' own truth values: `Index.any()` over the duplicated labels is False
    for the legal labels 0, '' (and raises for MultiIndex / datetime labels), so duplicated columns named 0 are accepted."""
    from .c08 import PDC
    f = ctx.ix.cls(PDC).lookup("check_column_names_are_unique")
    if f is None:
        raise AnalysisError("pandas check_column_names_are_unique missing")
    ctx.touched(f)
    ex = Expander(f.node)
    tests = [n.test for n in walk_no_nested(f.node) if isinstance(n, (ast.If, ast.IfExp))] + \
            [n.value for n in walk_no_nested(f.node) if isinstance(n, ast.Assign) and any(isinstance(t, ast.Name) and t.id == "passed" for t in n.targets)]
    bad = []
    for t in tests:
        for c in [x for x in ast.walk(t) if isinstance(x, ast.Call) and callee_last(x) in ("any", "all") and isinstance(x.func, ast.Attribute)]:
            recv = ex.expand(c.func.value)
            # labels themselves: a selection of check_obj.columns (not the boolean `duplicated()` mask)
            if isinstance(recv, ast.Subscript) and "columns" in txt(recv.value) and not (isinstance(recv, ast.Call)):
                bad.append(c)
    ctx.ob("R13", f, "check_column_names_are_unique decides on the number of duplicated labels", not bad,
           "no truth-value aggregation over labels" if not bad else
           f"`{txt(bad[0])}` aggregates the truth values of the duplicated *labels*: columns [0, 0] or ['', ''] are accepted although unique_column_names=True, "
           "and MultiIndex / datetime labels raise TypeError", f.loc(bad[0]) if bad else None)


def run(ctx):
    r13_label_verdict_not_by_truthiness(ctx)
    r14_frame_dtype_overrides_columns_only(ctx)
    r12_verdict_not_from_report(ctx)
    r11_verdict_from_output(ctx)
    r10_monotone_verdict(ctx)
    r9_column_info(ctx)
    r9_sorted_names_distinct(ctx)
    r7_dtype_equality(ctx)
    r8_verdict_observers(ctx)
    r1_wiring(ctx)
    r2_attributes(ctx)
    r3_predicates(ctx)
    r4_duplicates(ctx)
    r5_nulls(ctx)
    r6_parse_on_request(ctx)
    ctx.assume("pandas comparison operators, isin, str accessors, duplicated(keep=) have their documented meaning")
    ctx.assume("R6 'options off' assignment: add_missing_columns=False, strict!='filter', coerce=False everywhere, "
               "default is None, parsers empty")
