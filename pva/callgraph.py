"""Call edges with their lexical exception context, on top of the resolver."""

from __future__ import annotations

import ast
from typing import Dict, List, Optional, Set, Tuple

from .cfg import handler_names
from .index import FuncInfo, parent, walk_no_nested

BROAD = {"Exception", "BaseException"}


def enclosing_tries(node, func_node) -> List[ast.Try]:
    """Try statements whose *body* (not handlers/finally) lexically contains node."""
    out = []
    child, p = node, parent(node)
    while p is not None and p is not func_node:
        if isinstance(p, ast.Try) and child in p.body:
            out.append(p)
        child, p = p, parent(p)
    return out


def handler_reraises(h: ast.ExceptHandler) -> bool:
    return any(isinstance(s, ast.Raise) and s.exc is None for s in ast.walk(h))


def caught_classes(t: ast.Try) -> List[Tuple[List[str], ast.ExceptHandler]]:
    return [(handler_names(h), h) for h in t.handlers]


def caught_at(node, func_node) -> frozenset:
    """Exception class names caught (and not re-raised) by the try bodies enclosing node."""
    out = set()
    for t in enclosing_tries(node, func_node):
        for names, h in caught_classes(t):
            if not handler_reraises(h):
                out |= set(names)
    return frozenset(out)


def is_fenced(node, func_node) -> bool:
    """Is `node` inside a try body that catches Exception without re-raising it?"""
    for t in enclosing_tries(node, func_node):
        for names, h in caught_classes(t):
            if set(names) & BROAD and not handler_reraises(h):
                return True
    return False


class CallGraph:
    def __init__(self, eng):
        self.eng = eng
        self.ix = eng.ix
        self._edges: Dict[str, List[Tuple[ast.Call, List[FuncInfo], bool]]] = {}

    def edges(self, f: FuncInfo):
        if f.qual not in self._edges:
            out = []
            for n in walk_no_nested(f.node):
                if isinstance(n, ast.Call):
                    callees, kind = self.eng.resolve(f, n)
                    if not callees and isinstance(n.func, ast.Name):
                        quals = self.eng.param_callables.get((f.qual, n.func.id), set())
                        callees = [self.ix.funcs[q] for q in sorted(quals) if q in self.ix.funcs]
                    if callees:
                        out.append((n, callees, is_fenced(n, f.node)))
            # nested functions are reachable when defined (closures called or passed on)
            for g in f.nested.values():
                out.append((g.node, [g], False))
            self._edges[f.qual] = out
        return self._edges[f.qual]

    def reachable(self, roots: List[FuncInfo], cut_fenced=False, stop=None) -> Dict[str, Tuple[Optional[str], int]]:
        """qual -> (caller qual, call line) for every function reachable from roots."""
        seen: Dict[str, Tuple[Optional[str], int]] = {r.qual: (None, 0) for r in roots}
        todo = list(roots)
        while todo:
            f = todo.pop()
            for call, callees, fenced in self.edges(f):
                if cut_fenced and fenced:
                    continue
                for g in callees:
                    if stop is not None and stop(g):
                        continue
                    if g.qual not in seen:
                        seen[g.qual] = (f.qual, getattr(call, "lineno", 0))
                        todo.append(g)
        return seen

    def reachable_catching(self, roots: List[FuncInfo], stop=None):
        """qual -> list of minimal frozensets of exception classes caught along some call chain from a root,
        plus a predecessor map for reporting."""
        states: Dict[str, List[frozenset]] = {r.qual: [frozenset()] for r in roots}
        pred: Dict[str, Tuple[Optional[str], int]] = {r.qual: (None, 0) for r in roots}
        todo = [(r, frozenset()) for r in roots]
        while todo:
            f, caught = todo.pop()
            for call, callees, _ in self.edges(f):
                c2 = caught | (caught_at(call, f.node) if isinstance(call, ast.Call) else frozenset())
                for g in callees:
                    if stop is not None and stop(g):
                        continue
                    cur = states.setdefault(g.qual, [])
                    if any(x <= c2 for x in cur):
                        continue
                    cur[:] = [x for x in cur if not c2 <= x] + [c2]
                    if len(cur) > 6:
                        cur[:] = sorted(cur, key=len)[:6]
                    pred.setdefault(g.qual, (f.qual, getattr(call, "lineno", 0)))
                    todo.append((g, c2))
        return states, pred

    def path_to(self, seen, qual) -> List[str]:
        out = []
        q = qual
        while q is not None and len(out) < 12:
            out.append(q.split("::")[1])
            q = seen.get(q, (None, 0))[0]
        return list(reversed(out))


SCHEMA_EXC = ("SchemaError", "SchemaErrors", "ParserError", "SchemaDefinitionError", "SchemaInitError")


def explicit_raises(f: FuncInfo):
    """(class name, raise node) for `raise X(...)` statements of f (nested defs excluded)."""
    out = []
    for s in walk_no_nested(f.node):
        if isinstance(s, ast.Raise) and s.exc is not None:
            e = s.exc.func if isinstance(s.exc, ast.Call) else s.exc
            name = e.attr if isinstance(e, ast.Attribute) else (e.id if isinstance(e, ast.Name) else None)
            if name:
                out.append((name, s))
    return out


class RaiseSets:
    """Which pandera exception classes may propagate out of each function
    (explicit raises + callees, minus what enclosing try bodies catch)."""

    def __init__(self, cg: CallGraph, classes=SCHEMA_EXC):
        self.cg = cg
        self.classes = set(classes)
        self.sets: Dict[str, Set[str]] = {}

    def compute(self, funcs: List[FuncInfo], max_rounds=30):
        for f in funcs:
            self.sets[f.qual] = set()
        pre = {}
        for f in funcs:
            own = set()
            for name, node in explicit_raises(f):
                if name in self.classes:
                    c = caught_at(node, f.node)
                    if name not in c and not (c & BROAD):
                        own.add(name)
            edges = []
            for call, callees, _ in self.cg.edges(f):
                c = caught_at(call, f.node) if isinstance(call, ast.Call) else frozenset()
                if c & BROAD:
                    continue
                edges.append(([g.qual for g in callees], c))
            pre[f.qual] = (own, edges)
        changed = True
        rounds = 0
        while changed and rounds < max_rounds:
            changed = False
            rounds += 1
            for f in funcs:
                own, edges = pre[f.qual]
                cur = set(own)
                for quals, c in edges:
                    for q in quals:
                        for name in self.sets.get(q, ()):
                            if name not in c:
                                cur.add(name)
                if cur != self.sets[f.qual]:
                    self.sets[f.qual] = cur
                    changed = True
        return self

    def compute_slow(self, funcs: List[FuncInfo], max_rounds=30):
        for f in funcs:
            self.sets[f.qual] = set()
        changed = True
        rounds = 0
        while changed and rounds < max_rounds:
            changed = False
            rounds += 1
            for f in funcs:
                cur = set()
                for name, node in explicit_raises(f):
                    if name in self.classes:
                        c = caught_at(node, f.node)
                        if name not in c and not (c & BROAD):
                            cur.add(name)
                for call, callees, _ in self.cg.edges(f):
                    c = caught_at(call, f.node) if isinstance(call, ast.Call) else frozenset()
                    for g in callees:
                        for name in self.sets.get(g.qual, ()):
                            if name not in c and not (c & BROAD):
                                cur.add(name)
                # a handler that re-raises lets the class through; handlers raising a new class are explicit raises
                if cur != self.sets[f.qual]:
                    self.sets[f.qual] = cur
                    changed = True
        return self

    def of_call(self, f: FuncInfo, call: ast.Call) -> Set[str]:
        out = set()
        for c, callees, _ in self.cg.edges(f):
            if c is call:
                for g in callees:
                    out |= self.sets.get(g.qual, set())
        return out
