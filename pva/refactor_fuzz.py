
"""Silence test of the checkers under behaviour-preserving refactors.

Applies mechanical, semantics-preserving AST transformations to one source file of
/repo at a time (in memory, through the index overlay - nothing is written to disk),
runs the quick rules of every property on the variant and reports every obligation
that is violated on the variant but not on the unchanged tree (a FALSE ALARM of the
checker) and every analysis error.

  tools/refactor_fuzz.py [--files GLOB ...] [--transforms t1,t2] [--props C01,C02] [--jobs N] [--per-function]

Transforms: reformat, ret_temp, assign_temp, rename, if_invert, ternary_split,
early_exit_else, cmp_flip, kw_reverse, noop_insert, and_split.
"""
from __future__ import annotations

import argparse
import ast
import copy
import fnmatch
import os
import sys
import time
from concurrent.futures import ProcessPoolExecutor



from .index import REPO, AnalysisError, Index

PROPS = [f"C{i:02d}" for i in range(1, 21)]


# --------------------------------------------------------------------------- transforms
def _funcs(tree):
    return [n for n in ast.walk(tree) if isinstance(n, (ast.FunctionDef, ast.AsyncFunctionDef))]


def _is_docstring(stmt):
    return isinstance(stmt, ast.Expr) and isinstance(stmt.value, ast.Constant) and isinstance(stmt.value.value, str)


class _BlockRewriter(ast.NodeTransformer):
    """Calls self.rewrite_block(list_of_stmts) -> list on every statement list."""

    def generic_visit(self, node):
        super().generic_visit(node)
        for field in ("body", "orelse", "finalbody"):
            v = getattr(node, field, None)
            if isinstance(v, list) and v and isinstance(v[0], ast.stmt):
                setattr(node, field, self.rewrite_block(v, node, field))
        return node

    def rewrite_block(self, stmts, owner, field):
        return stmts


def t_reformat(tree, only=None):
    return tree


def t_ret_temp(tree, only=None):
    counter = [0]

    class R(_BlockRewriter):
        def rewrite_block(self, stmts, owner, field):
            out = []
            for s in stmts:
                if isinstance(s, ast.Return) and s.value is not None and not isinstance(s.value, (ast.Name, ast.Constant)):
                    counter[0] += 1
                    nm = f"ret_value_{counter[0]}"
                    out.append(ast.Assign(targets=[ast.Name(id=nm, ctx=ast.Store())], value=s.value, lineno=s.lineno))
                    out.append(ast.Return(value=ast.Name(id=nm, ctx=ast.Load())))
                else:
                    out.append(s)
            return out

    return _apply_in_funcs(tree, R(), only)


def t_assign_temp(tree, only=None):
    counter = [0]

    class R(_BlockRewriter):
        def rewrite_block(self, stmts, owner, field):
            if isinstance(owner, (ast.ClassDef, ast.Module)):
                return stmts
            out = []
            for s in stmts:
                if isinstance(s, ast.Assign) and len(s.targets) == 1 and isinstance(s.targets[0], ast.Name) \
                        and isinstance(s.value, (ast.Call, ast.BinOp, ast.Compare, ast.BoolOp, ast.IfExp, ast.Subscript)):
                    counter[0] += 1
                    nm = f"tmp_value_{counter[0]}"
                    out.append(ast.Assign(targets=[ast.Name(id=nm, ctx=ast.Store())], value=s.value, lineno=s.lineno))
                    out.append(ast.Assign(targets=s.targets, value=ast.Name(id=nm, ctx=ast.Load()), lineno=s.lineno))
                else:
                    out.append(s)
            return out

    return _apply_in_funcs(tree, R(), only)


def _apply_in_funcs(tree, transformer, only):
    """Apply transformer to every outermost function (optionally only the one named)."""
    class Outer(ast.NodeTransformer):
        def visit_FunctionDef(self, node):
            if only is None or node.name == only:
                return transformer.visit(node)
            return self.generic_visit(node)
        visit_AsyncFunctionDef = visit_FunctionDef

    return Outer().visit(tree)


def _scope_bound_names(fn):
    """names bound by assignment in fn's own scope (not params), excluding global/nonlocal"""
    bound, banned = set(), set()
    params = {a.arg for a in fn.args.posonlyargs + fn.args.args + fn.args.kwonlyargs}
    if fn.args.vararg:
        params.add(fn.args.vararg.arg)
    if fn.args.kwarg:
        params.add(fn.args.kwarg.arg)

    def walk(n, top=True):
        for ch in ast.iter_child_nodes(n):
            if isinstance(ch, (ast.FunctionDef, ast.AsyncFunctionDef, ast.ClassDef)):
                bound.add(ch.name)
                banned.add(ch.name)  # do not rename nested defs
                continue
            if isinstance(ch, ast.Lambda):
                continue
            if isinstance(ch, (ast.ListComp, ast.SetComp, ast.DictComp, ast.GeneratorExp)):
                # comprehension targets are their own scope; walrus not used in repo
                walk(ch, False)
                continue
            if isinstance(ch, (ast.Global, ast.Nonlocal)):
                banned.update(ch.names)
            if isinstance(ch, ast.Name) and isinstance(ch.ctx, (ast.Store, ast.Del)):
                bound.add(ch.id)
            if isinstance(ch, ast.ExceptHandler) and ch.name:
                bound.add(ch.name)
            if isinstance(ch, (ast.Import, ast.ImportFrom)):
                for a in ch.names:
                    banned.add((a.asname or a.name).split(".")[0])
            walk(ch, top)

    walk(fn)
    # comprehension-scope names: collect names stored inside comprehensions -> they are not function locals; ban
    for n in ast.walk(fn):
        if isinstance(n, (ast.ListComp, ast.SetComp, ast.DictComp, ast.GeneratorExp)):
            for g in n.generators:
                for t in ast.walk(g.target):
                    if isinstance(t, ast.Name):
                        banned.add(t.id)
    return (bound - params) - banned


def t_rename(tree, only=None):
    """rename every plain local of every outermost function: v -> v_rn (nested scopes that re-bind v are left alone)"""
    for fn in _outer_funcs(tree):
        if only is not None and fn.name != only:
            continue
        src_names = {n.id for n in ast.walk(fn) if isinstance(n, ast.Name)}
        if {"locals", "vars", "eval", "exec"} & src_names:
            continue
        targets = _scope_bound_names(fn)
        if not targets:
            continue
        _rename_in_scope(fn, {t: t + "_rn" for t in targets}, top=True)
    return tree


def _outer_funcs(tree):
    out = []

    def walk(n):
        for ch in ast.iter_child_nodes(n):
            if isinstance(ch, (ast.FunctionDef, ast.AsyncFunctionDef)):
                out.append(ch)
            else:
                walk(ch)

    walk(tree)
    return out


def _rename_in_scope(scope, mapping, top=False):
    if not mapping:
        return
    for ch in ast.iter_child_nodes(scope):
        _rename_node(ch, mapping)


def _rename_node(n, mapping):
    if isinstance(n, (ast.FunctionDef, ast.AsyncFunctionDef, ast.Lambda)):
        # nested scope: drop names it re-binds (params or assignments)
        args = n.args
        params = {a.arg for a in args.posonlyargs + args.args + args.kwonlyargs}
        if args.vararg:
            params.add(args.vararg.arg)
        if args.kwarg:
            params.add(args.kwarg.arg)
        rebound = set(params)
        if not isinstance(n, ast.Lambda):
            nonlocal_names = set()
            for x in ast.walk(n):
                if isinstance(x, ast.Nonlocal):
                    nonlocal_names.update(x.names)
            for x in ast.walk(n):
                if isinstance(x, ast.Name) and isinstance(x.ctx, ast.Store) and x.id not in nonlocal_names:
                    rebound.add(x.id)
                if isinstance(x, ast.ExceptHandler) and x.name:
                    rebound.add(x.name)
        inner = {k: v for k, v in mapping.items() if k not in rebound}
        # defaults / decorators are evaluated in the enclosing scope
        for d in list(args.defaults) + [d for d in args.kw_defaults if d is not None]:
            _rename_node(d, mapping)
        if not isinstance(n, ast.Lambda):
            for d in n.decorator_list:
                _rename_node(d, mapping)
            for s in n.body:
                _rename_node(s, inner)
        else:
            _rename_node(n.body, inner)
        return
    if isinstance(n, ast.ClassDef):
        return
    if isinstance(n, ast.Name) and n.id in mapping:
        n.id = mapping[n.id]
    if isinstance(n, ast.ExceptHandler) and n.name in mapping:
        n.name = mapping[n.name]
    if isinstance(n, ast.Nonlocal):
        n.names = [mapping.get(x, x) for x in n.names]
    for ch in ast.iter_child_nodes(n):
        _rename_node(ch, mapping)


def t_if_invert(tree, only=None):
    class R(ast.NodeTransformer):
        def visit_If(self, node):
            self.generic_visit(node)
            if node.orelse and not (len(node.orelse) == 1 and isinstance(node.orelse[0], ast.If)):
                node.test = ast.UnaryOp(op=ast.Not(), operand=node.test)
                node.body, node.orelse = node.orelse, node.body
            return node

    return _apply_in_funcs(tree, R(), only)


def t_ternary_split(tree, only=None):
    class R(_BlockRewriter):
        def rewrite_block(self, stmts, owner, field):
            if isinstance(owner, (ast.ClassDef, ast.Module)):
                return stmts
            out = []
            for s in stmts:
                if isinstance(s, ast.Assign) and len(s.targets) == 1 and isinstance(s.targets[0], ast.Name) and isinstance(s.value, ast.IfExp):
                    v = s.value
                    out.append(ast.If(test=v.test,
                                      body=[ast.Assign(targets=copy.deepcopy(s.targets), value=v.body, lineno=s.lineno)],
                                      orelse=[ast.Assign(targets=copy.deepcopy(s.targets), value=v.orelse, lineno=s.lineno)]))
                elif isinstance(s, ast.Return) and isinstance(s.value, ast.IfExp):
                    v = s.value
                    out.append(ast.If(test=v.test, body=[ast.Return(value=v.body)], orelse=[ast.Return(value=v.orelse)]))
                else:
                    out.append(s)
            return out

    return _apply_in_funcs(tree, R(), only)


def _ends_in_jump(block):
    return bool(block) and isinstance(block[-1], (ast.Return, ast.Raise, ast.Continue, ast.Break))


def t_early_exit_else(tree, only=None):
    class R(_BlockRewriter):
        def rewrite_block(self, stmts, owner, field):
            for i, s in enumerate(stmts):
                if isinstance(s, ast.If) and not s.orelse and _ends_in_jump(s.body) and i + 1 < len(stmts):
                    rest = stmts[i + 1:]
                    if any(isinstance(x, (ast.FunctionDef, ast.ClassDef)) for x in rest):
                        continue
                    s.orelse = rest
                    return stmts[: i + 1]
            return stmts

    return _apply_in_funcs(tree, R(), only)


_FLIP = {ast.Lt: ast.Gt, ast.Gt: ast.Lt, ast.LtE: ast.GtE, ast.GtE: ast.LtE, ast.Eq: ast.Eq, ast.NotEq: ast.NotEq}


def _pure(e):
    return isinstance(e, (ast.Name, ast.Constant)) or (isinstance(e, ast.Attribute) and _pure(e.value))


def t_cmp_flip(tree, only=None):
    class R(ast.NodeTransformer):
        def visit_Compare(self, node):
            self.generic_visit(node)
            if len(node.ops) == 1 and type(node.ops[0]) in _FLIP and _pure(node.left) and _pure(node.comparators[0]):
                return ast.Compare(left=node.comparators[0], ops=[_FLIP[type(node.ops[0])]()], comparators=[node.left])
            return node

    return _apply_in_funcs(tree, R(), only)


def t_kw_reverse(tree, only=None):
    class R(ast.NodeTransformer):
        def visit_Call(self, node):
            self.generic_visit(node)
            if len(node.keywords) > 1 and all(k.arg is not None for k in node.keywords) \
                    and all(_pure(k.value) or isinstance(k.value, ast.Constant) for k in node.keywords):
                node.keywords = list(reversed(node.keywords))
            return node

    return _apply_in_funcs(tree, R(), only)


def t_noop_insert(tree, only=None):
    for fn in _funcs(tree):
        if only is not None and fn.name != only:
            continue
        i = 1 if fn.body and _is_docstring(fn.body[0]) else 0
        if any(isinstance(s, (ast.Global, ast.Nonlocal)) for s in fn.body):
            continue
        fn.body.insert(i, ast.Assign(targets=[ast.Name(id="_unused_marker", ctx=ast.Store())], value=ast.Constant(value=None), lineno=fn.lineno))
    return tree


def t_and_split(tree, only=None):
    class R(ast.NodeTransformer):
        def visit_If(self, node):
            self.generic_visit(node)
            if not node.orelse and isinstance(node.test, ast.BoolOp) and isinstance(node.test.op, ast.And) and len(node.test.values) == 2:
                a, b = node.test.values
                return ast.If(test=a, body=[ast.If(test=b, body=node.body, orelse=[])], orelse=[])
            return node

    return _apply_in_funcs(tree, R(), only)


def t_pos_to_kw(tree, only=None):
    """positional arguments (after the first) of calls to functions / methods defined once in this file become keywords"""
    defs = {}
    for fn in _funcs(tree):
        defs.setdefault(fn.name, []).append(fn)
    uniq = {k: v[0] for k, v in defs.items() if len(v) == 1 and not v[0].args.vararg and not v[0].args.posonlyargs
            and all(isinstance(d, ast.Name) and d.id in ('staticmethod', 'classmethod') for d in v[0].decorator_list)}

    class R(ast.NodeTransformer):
        def visit_Call(self, node):
            self.generic_visit(node)
            name = None
            skip_self = 0
            if isinstance(node.func, ast.Attribute) and isinstance(node.func.value, ast.Name) and node.func.value.id in ("self", "cls"):
                name, skip_self = node.func.attr, 1
            elif isinstance(node.func, ast.Name):
                name = node.func.id
            fn = uniq.get(name)
            if fn is None or any(isinstance(a, ast.Starred) for a in node.args) or len(node.args) < 2:
                return node
            params = [a.arg for a in fn.args.args]
            if skip_self and params and params[0] in ("self", "cls"):
                params = params[1:]
            elif not skip_self and params and params[0] in ("self", "cls"):
                return node
            if len(node.args) > len(params):
                return node
            given = {k.arg for k in node.keywords}
            new_kw = []
            for i, a in enumerate(node.args[1:], start=1):
                if params[i] in given:
                    return node
                new_kw.append(ast.keyword(arg=params[i], value=a))
            node.args = node.args[:1]
            node.keywords = new_kw + node.keywords
            return node

    return _apply_in_funcs(tree, R(), only)


TRANSFORMS = {
    "reformat": t_reformat, "ret_temp": t_ret_temp, "assign_temp": t_assign_temp, "rename": t_rename,
    "if_invert": t_if_invert, "ternary_split": t_ternary_split, "early_exit_else": t_early_exit_else,
    "cmp_flip": t_cmp_flip, "kw_reverse": t_kw_reverse, "noop_insert": t_noop_insert, "and_split": t_and_split, "pos_to_kw": t_pos_to_kw,
}


def make_variant(src, tname, only=None):
    tree = ast.parse(src)
    tree = TRANSFORMS[tname](tree, only)
    ast.fix_missing_locations(tree)
    new = ast.unparse(tree)
    compile(new, "<variant>", "exec")
    return new


# --------------------------------------------------------------------------- evaluation
def _run_all(ix, props):
    from .cli import run_property
    out = {}
    for p in props:
        try:
            rc, ctx = run_property(p, "quick", ix=ix, write_evidence=False, quiet=True)
            out[p] = ({o.key(): o.detail for o in ctx.obs if not o.ok}, None)
        except AnalysisError as e:
            out[p] = ({}, f"AnalysisError: {e}")
        except Exception as e:
            out[p] = ({}, f"{type(e).__name__}: {e}")
    return out


def _job(a):
    path, tname, only, props = a
    os.environ["PVA_NO_CACHE"] = "1"
    src = open(os.path.join(REPO, path), encoding="utf-8").read()
    try:
        new = make_variant(src, tname, only)
    except Exception as e:
        return (path, tname, only, None, f"transform failed: {type(e).__name__}: {e}")
    if only is None and tname != "reformat":
        base = ast.unparse(ast.parse(src))
        if base == new:
            return (path, tname, only, "unchanged", None)
    ix = Index(overlay={path: new})
    return (path, tname, only, _run_all(ix, props), None)


def main():
    ap = argparse.ArgumentParser()
    ap.add_argument("--files", nargs="*", default=["pandera/*.py", "pandera/api/*", "pandera/backends/base/*", "pandera/backends/pandas/*",
                                                    "pandera/backends/polars/*", "pandera/engines/*", "pandera/io/*",
                                                    "pandera/schema_inference/*", "pandera/schema_statistics/*", "pandera/strategies/*",
                                                    "pandera/typing/*", "pandera/backends/utils.py"])
    ap.add_argument("--transforms", default=",".join(TRANSFORMS))
    ap.add_argument("--props", default=",".join(PROPS))
    ap.add_argument("--jobs", type=int, default=16)
    ap.add_argument("--per-function", action="store_true")
    a = ap.parse_args()
    props = a.props.split(",")
    tnames = a.transforms.split(",")
    files = []
    for root, _, fns in os.walk(os.path.join(REPO, "pandera")):
        for fn in fns:
            if fn.endswith(".py"):
                rel = os.path.relpath(os.path.join(root, fn), REPO)
                if any(fnmatch.fnmatch(rel, g) or fnmatch.fnmatch(rel, g.rstrip("*") + "*") for g in a.files) and "pyspark" not in rel:
                    files.append(rel)
    files.sort()
    t0 = time.time()
    base = _run_all(Index(), props)
    for p, (k, err) in base.items():
        if err:
            print(f"BASELINE analysis error {p}: {err}")
    base_rf = {p: {(k[0], k[1]) for k in base[p][0]} for p in props}
    jobs = []
    for f in files:
        for t in tnames:
            if a.per_function:
                src = open(os.path.join(REPO, f), encoding="utf-8").read()
                for name in sorted({fn.name for fn in _funcs(ast.parse(src))}):
                    jobs.append((f, t, name, props))
            else:
                jobs.append((f, t, None, props))
    print(f"{len(files)} files x {len(tnames)} transforms = {len(jobs)} variants; baseline {time.time() - t0:.1f}s", flush=True)
    n_alarm = n_err = n_ok = n_same = 0
    with ProcessPoolExecutor(max_workers=a.jobs) as ex:
        for path, tname, only, res, terr in ex.map(_job, jobs, chunksize=1):
            tag = f"{path} [{tname}{'/' + only if only else ''}]"
            if terr:
                print(f"TRANSFORM-ERROR {tag}: {terr}", flush=True)
                continue
            if res == "unchanged":
                n_same += 1
                continue
            bad = False
            for p in props:
                keys, err = res[p]
                if err and not base[p][1]:
                    print(f"ANALYSIS-ERROR {p} {tag}: {err}", flush=True)
                    n_err += 1
                    bad = True
                    continue
                for k, detail in keys.items():
                    if k in base[p][0]:
                        continue
                    if (k[0], k[1]) in base_rf[p]:
                        continue  # the same (rule, function) already violated on the unchanged tree (known finding, construct text changed)
                    print(f"FALSE-ALARM {p} {tag}: {k[0]} {k[1]} :: {k[2][:100]} :: {str(detail)[:160]}", flush=True)
                    n_alarm += 1
                    bad = True
            if not bad:
                n_ok += 1
    print(f"variants silent={n_ok} unchanged={n_same} false-alarm obligations={n_alarm} analysis-errors={n_err} wall={time.time() - t0:.0f}s")
    return 1 if n_alarm or n_err else 0


if __name__ == "__main__":
    sys.exit(main())
