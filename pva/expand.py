"""Whole-function view: a function with the private helpers it calls expanded in place.

Rules that ask something about *one function's* control flow ("every path from A passes B", "the write is reached only
under option X", "attribute Y is consulted") must give the same answer when a maintainer extracts part of that function
into a private helper next to it (or inlines one).  `expanded(ix, f)` returns a copy of `f` (a FuncInfo whose `.node`
is a fresh FunctionDef) in which every call *in statement position* - `x = helper(...)`, `helper(...)`,
`return helper(...)` - to

  * a nested function of f,
  * a private module-level function (`_name`) of the same module,
  * a private method (`self._name(...)` / `cls._name(...)`) of the same class defined in the same module,

is replaced by the helper's body (parameters bound to the arguments, the helper's locals renamed when they clash, its
final `return E` turned into the assignment / expression / return of the call site).  Only single-exit helpers are
expanded (a `return` may appear only as the last statement); recursion, generators, *args/**kwargs and nested
definitions are left as calls.  Expression-like helpers are already expanded globally by the normaliser (N10).

The copy is used for analysis only and never replaces the function in the index, so call-graph / effect summaries and
the keys of known findings are unaffected.  Cloned statements keep the line numbers of the helper they came from."""

from __future__ import annotations

import ast
import copy
from typing import Dict, Optional

from .index import FuncInfo, walk_no_nested
from .util import clone

_CACHE: Dict[tuple, FuncInfo] = {}


def _params(fn):
    a = fn.args
    return [x.arg for x in a.posonlyargs + a.args + a.kwonlyargs]


def _single_exit(fn) -> bool:
    body = [s for s in fn.body if not (isinstance(s, ast.Expr) and isinstance(s.value, ast.Constant))]
    if not body:
        return False
    for s in body[:-1]:
        for n in ast.walk(s):
            if isinstance(n, ast.Return):
                return False
    last = body[-1]
    if not isinstance(last, ast.Return):
        for n in ast.walk(last):
            if isinstance(n, ast.Return):
                return False
    return True


def _expandable(fn) -> bool:
    if isinstance(fn, ast.AsyncFunctionDef):
        return False
    a = fn.args
    if a.vararg or a.kwarg or a.posonlyargs:
        return False
    for d in fn.decorator_list:
        if not (isinstance(d, ast.Name) and d.id in ("staticmethod", "classmethod")):
            return False
    n_stmts = 0
    for n in ast.walk(fn):
        if isinstance(n, (ast.Yield, ast.YieldFrom, ast.Await, ast.Global, ast.Nonlocal)):
            return False
        if isinstance(n, (ast.FunctionDef, ast.AsyncFunctionDef, ast.ClassDef, ast.Lambda)) and n is not fn:
            if not isinstance(n, ast.Lambda):
                return False
        if isinstance(n, ast.Call) and ((isinstance(n.func, ast.Name) and n.func.id == fn.name) or
                                        (isinstance(n.func, ast.Attribute) and n.func.attr == fn.name and isinstance(n.func.value, ast.Name)
                                         and n.func.value.id in ("self", "cls"))):
            return False
        if isinstance(n, ast.stmt):
            n_stmts += 1
    return n_stmts <= 80 and _single_exit(fn)


def _bind(fn, call, skip_first):
    names = [x.arg for x in fn.args.args]
    if skip_first:
        names = names[1:]
    if any(isinstance(x, ast.Starred) for x in call.args) or any(k.arg is None for k in call.keywords) or len(call.args) > len(names):
        return None
    bound = dict(zip(names, call.args))
    allowed = set(names) | {x.arg for x in fn.args.kwonlyargs}
    for k in call.keywords:
        if k.arg not in allowed or k.arg in bound:
            return None
        bound[k.arg] = k.value
    all_names = [x.arg for x in fn.args.args]
    defaults = dict(zip(all_names[len(all_names) - len(fn.args.defaults):], fn.args.defaults))
    defaults.update({x.arg: d for x, d in zip(fn.args.kwonlyargs, fn.args.kw_defaults) if d is not None})
    for n in allowed:
        if n not in bound:
            if n in defaults:
                bound[n] = defaults[n]
            else:
                return None
    return bound


def _resolve(ix, f: FuncInfo, call) -> Optional[tuple]:
    """(helper FuncInfo, receiver name or None) for a call that may be expanded inside f"""
    fn = call.func
    if isinstance(fn, ast.Name):
        h = f.nested.get(fn.id)
        p = getattr(f, "parent", None)
        while h is None and p is not None:
            h = p.nested.get(fn.id)
            p = getattr(p, "parent", None)
        if h is None and fn.id.startswith("_") and not fn.id.startswith("__"):
            h = f.module.functions.get(fn.id)
        return (h, None) if h is not None else None
    if isinstance(fn, ast.Attribute) and isinstance(fn.value, ast.Name) and fn.value.id in ("self", "cls") and f.cls is not None \
            and fn.attr.startswith("_") and not fn.attr.startswith("__") or \
            (isinstance(fn, ast.Attribute) and isinstance(fn.value, ast.Name) and fn.value.id in ("self", "cls") and f.cls is not None
             and fn.attr.startswith("_" + f.cls.name + "__")):
        h = f.cls.lookup(fn.attr)
        if h is not None and h.module is f.module and h is not f:
            return (h, fn.value.id)
    return None


class _Renamer(ast.NodeTransformer):
    def __init__(self, subst, rename):
        self.subst, self.rename = subst, rename

    def visit_Name(self, n):
        if n.id in self.subst and isinstance(n.ctx, ast.Load):
            return clone(self.subst[n.id])
        if n.id in self.rename:
            return ast.copy_location(ast.Name(id=self.rename[n.id], ctx=n.ctx), n)
        return n

    def visit_ExceptHandler(self, n):
        self.generic_visit(n)
        if n.name in self.rename:
            n.name = self.rename[n.name]
        return n


def _expand_once(ix, f: FuncInfo, node: ast.FunctionDef, used_tags) -> int:
    """expand eligible statement-position calls in `node` (a clone belonging to f); returns the number of expansions"""
    count = 0
    caller_names = {n.id for n in ast.walk(node) if isinstance(n, ast.Name)} | set(_params(node))

    def blocks(n):
        for fld in ("body", "orelse", "finalbody"):
            v = getattr(n, fld, None)
            if isinstance(v, list) and v and isinstance(v[0], ast.stmt):
                yield v
                for s in v:
                    if not isinstance(s, (ast.FunctionDef, ast.AsyncFunctionDef, ast.ClassDef)):
                        yield from blocks(s)
        for h in getattr(n, "handlers", []) or []:
            yield from blocks(h)

    for stmts in list(blocks(node)):
        i = 0
        while i < len(stmts):
            s = stmts[i]
            call = None
            if isinstance(s, ast.Expr) and isinstance(s.value, ast.Call):
                call = s.value
            elif isinstance(s, ast.Assign) and isinstance(s.value, ast.Call):
                call = s.value
            elif isinstance(s, ast.Return) and isinstance(s.value, ast.Call):
                call = s.value
            r = _resolve(ix, f, call) if call is not None else None
            if r is None or not _expandable(r[0].node):
                i += 1
                continue
            h, recv = r
            hn = h.node
            is_method = recv is not None or (h.cls is not None and not h.is_static())
            skip_first = h.cls is not None and not h.is_static() and bool(hn.args.args) and hn.args.args[0].arg in ("self", "cls")
            bound = _bind(hn, call, skip_first)
            if bound is None:
                i += 1
                continue
            stored = {n.id for n in ast.walk(hn) if isinstance(n, ast.Name) and isinstance(n.ctx, (ast.Store, ast.Del))}
            stored |= {n.name for n in ast.walk(hn) if isinstance(n, ast.ExceptHandler) and n.name}
            tag = h.name.strip("_")
            k = 1
            while (tag, k) in used_tags:
                k += 1
            used_tags.add((tag, k))
            suffix = f"__{tag}{k if k > 1 else ''}"
            subst, rename, pre = {}, {}, []
            for p, a in bound.items():
                pure = isinstance(a, (ast.Name, ast.Constant)) or (isinstance(a, ast.Attribute) and isinstance(a.value, ast.Name))
                if p not in stored and pure:
                    subst[p] = a
                elif p not in stored and isinstance(a, ast.Name) and a.id == p:
                    pass
                else:
                    new = p if (isinstance(a, ast.Name) and a.id == p and p not in stored) else p + suffix
                    rename[p] = new
                    pre.append(ast.copy_location(ast.Assign(targets=[ast.Name(id=new, ctx=ast.Store())], value=clone(a)), s))
            if skip_first and recv is not None and hn.args.args[0].arg != recv:
                rename[hn.args.args[0].arg] = recv
            for v in stored:
                if v not in rename and v not in bound and v in caller_names:
                    rename[v] = v + suffix
            body = [clone(x) for x in hn.body if not (isinstance(x, ast.Expr) and isinstance(x.value, ast.Constant) and isinstance(x.value.value, str))]
            body = [_Renamer(subst, rename).visit(x) for x in body]
            tail = []
            if body and isinstance(body[-1], ast.Return):
                ret = body.pop()
                val = ret.value if ret.value is not None else ast.Constant(value=None)
                if isinstance(s, ast.Assign):
                    tail = [ast.copy_location(ast.Assign(targets=s.targets, value=val), ret)]
                elif isinstance(s, ast.Return):
                    tail = [ast.copy_location(ast.Return(value=val), ret)]
                else:
                    tail = [ast.copy_location(ast.Expr(value=val), ret)] if not isinstance(val, (ast.Name, ast.Constant)) else []
            elif isinstance(s, ast.Assign):
                tail = [ast.copy_location(ast.Assign(targets=s.targets, value=ast.Constant(value=None)), s)]
            elif isinstance(s, ast.Return):
                tail = [ast.copy_location(ast.Return(value=ast.Constant(value=None)), s)]
            new_stmts = pre + body + tail
            if not new_stmts:
                new_stmts = [ast.copy_location(ast.Pass(), s)]
            for x in new_stmts:
                ast.fix_missing_locations(x)
            stmts[i:i + 1] = new_stmts
            caller_names |= {n.id for x in new_stmts for n in ast.walk(x) if isinstance(n, ast.Name)}
            count += 1
            i += len(new_stmts)
    return count


def expanded(ix, f: FuncInfo, depth: int = 3) -> FuncInfo:
    key = (id(ix), f.qual, depth)
    if key in _CACHE:
        return _CACHE[key]
    node = clone(f.node)
    tags = set()
    total = 0
    for _ in range(depth):
        n = _expand_once(ix, f, node, tags)
        total += n
        if not n:
            break
    if total:
        from .normalize import _normalize_function, _structural
        for _ in range(3):
            if not (_normalize_function(node) + _structural(node)):
                break
    for n in ast.walk(node):
        for c in ast.iter_child_nodes(n):
            c._parent = n  # type: ignore[attr-defined]
    node._parent = getattr(f.node, "_parent", None)  # type: ignore[attr-defined]
    g = copy.copy(f)
    g.node = node
    g.expansions = total
    _CACHE[key] = g
    return g
