"""E1: source index of the pandera package (modules, classes, functions,
imports, class hierarchy).  Nothing is imported from pandera; everything is
parsed with ``ast`` from the working tree (optionally through an overlay
``{relative path: source}`` used by the witness harness)."""

from __future__ import annotations

import ast
import os
from typing import Dict, Iterator, List, Optional, Tuple

REPO = os.environ.get("PVA_REPO", "/repo")
PKG = "pandera"


class AnalysisError(Exception):
    """The analysis itself cannot run (vanished anchor, unknown form)."""


class FuncInfo:
    def __init__(self, module, node, cls=None, parent=None):
        self.module: "Module" = module
        self.node: ast.AST = node
        self.cls: Optional["ClassInfo"] = cls
        self.parent: Optional["FuncInfo"] = parent
        self.name: str = node.name if hasattr(node, "name") else "<lambda>"
        self.nested: Dict[str, "FuncInfo"] = {}
        self.local_imports: Dict[str, str] = {}
        if parent is not None:
            self.qual = f"{parent.qual}.<{self.name}>"
        elif cls is not None:
            self.qual = f"{module.path}::{cls.name}.{self.name}"
        else:
            self.qual = f"{module.path}::{self.name}"

    @property
    def short(self) -> str:
        return self.qual.split("::", 1)[1]

    @property
    def decorators(self) -> List[ast.expr]:
        return list(getattr(self.node, "decorator_list", []))

    def decorator_names(self) -> List[str]:
        out = []
        for d in self.decorators:
            if isinstance(d, ast.Call):
                d = d.func
            out.append(dotted(d) or "?")
        return out

    @property
    def params(self) -> List[str]:
        a = self.node.args
        names = [x.arg for x in a.posonlyargs + a.args]
        if a.vararg:
            names.append(a.vararg.arg)
        names += [x.arg for x in a.kwonlyargs]
        if a.kwarg:
            names.append(a.kwarg.arg)
        return names

    @property
    def positional(self) -> List[str]:
        a = self.node.args
        return [x.arg for x in a.posonlyargs + a.args]

    @property
    def kwonly(self) -> List[str]:
        return [x.arg for x in self.node.args.kwonlyargs]

    def is_static(self) -> bool:
        return "staticmethod" in self.decorator_names()

    def is_classmethod(self) -> bool:
        return "classmethod" in self.decorator_names()

    def is_property(self) -> bool:
        names = self.decorator_names()
        return "property" in names or any(n.endswith(".setter") or n.endswith(".getter") for n in names)

    def defaults(self) -> Dict[str, ast.expr]:
        d = getattr(self, "_defaults", None)
        if d is None:
            d = self._defaults = self._compute_defaults()
        return d

    def _compute_defaults(self) -> Dict[str, ast.expr]:
        a = self.node.args
        pos = a.posonlyargs + a.args
        out = {}
        for arg, d in zip(pos[len(pos) - len(a.defaults):], a.defaults):
            out[arg.arg] = d
        for arg, d in zip(a.kwonlyargs, a.kw_defaults):
            if d is not None:
                out[arg.arg] = d
        return out

    def annotations(self) -> Dict[str, ast.expr]:
        a = self.node.args
        out = {}
        for x in a.posonlyargs + a.args + a.kwonlyargs:
            if x.annotation is not None:
                out[x.arg] = x.annotation
        return out

    def loc(self, node=None) -> str:
        n = node if node is not None else self.node
        return f"{self.module.path}:{getattr(n, 'lineno', 0)}"

    def __repr__(self):
        return f"<Func {self.qual}>"


class ClassInfo:
    def __init__(self, module, node):
        self.module: "Module" = module
        self.node: ast.ClassDef = node
        self.name = node.name
        self.qual = f"{module.path}::{node.name}"
        self.methods: Dict[str, List[FuncInfo]] = {}
        self.assigns: Dict[str, ast.expr] = {}
        self.ann: Dict[str, ast.expr] = {}
        self.bases: List["ClassInfo"] = []
        self.ext_bases: List[str] = []
        self.subclasses: List["ClassInfo"] = []
        self._mro: Optional[List["ClassInfo"]] = None

    def method(self, name) -> Optional[FuncInfo]:
        """Last definition of `name` in this class body (setter wins over getter
        only when asked through `setter`)."""
        lst = self.methods.get(name)
        if not lst:
            return None
        for f in lst:
            if not any(n.endswith(".setter") for n in f.decorator_names()):
                return f
        return lst[0]

    def setter(self, name) -> Optional[FuncInfo]:
        for f in self.methods.get(name, []):
            if any(n.endswith(".setter") for n in f.decorator_names()):
                return f
        return None

    def mro(self) -> List["ClassInfo"]:
        if self._mro is None:
            self._mro = _c3(self)
        return self._mro

    def lookup(self, name) -> Optional[FuncInfo]:
        for c in self.mro():
            f = c.method(name)
            if f is not None:
                return f
        return None

    def lookup_setter(self, name) -> Optional[FuncInfo]:
        for c in self.mro():
            f = c.setter(name)
            if f is not None:
                return f
            if c.method(name) is not None and not c.method(name).is_property():
                return None
        return None

    def lookup_assign(self, name) -> Optional[ast.expr]:
        for c in self.mro():
            if name in c.assigns:
                return c.assigns[name]
        return None

    def all_subclasses(self) -> List["ClassInfo"]:
        out, seen, todo = [], set(), list(self.subclasses)
        while todo:
            c = todo.pop()
            if c.qual in seen:
                continue
            seen.add(c.qual)
            out.append(c)
            todo.extend(c.subclasses)
        return out

    def is_subclass_of(self, name_or_cls) -> bool:
        for c in self.mro():
            if c is name_or_cls or c.name == name_or_cls or c.qual == name_or_cls:
                return True
        return False

    def decorator_names(self) -> List[str]:
        out = []
        for d in self.node.decorator_list:
            if isinstance(d, ast.Call):
                d = d.func
            out.append(dotted(d) or "?")
        return out

    def __repr__(self):
        return f"<Class {self.qual}>"


def _c3(cls: ClassInfo) -> List[ClassInfo]:
    seqs = [list(b.mro()) for b in cls.bases] + [list(cls.bases)]
    res = [cls]
    seqs = [s for s in seqs if s]
    guard = 0
    while seqs:
        guard += 1
        if guard > 10000:
            break
        for s in seqs:
            cand = s[0]
            if not any(cand in t[1:] for t in seqs):
                break
        else:
            # inconsistent hierarchy: fall back to DFS order
            cand = seqs[0][0]
        res.append(cand)
        seqs = [[c for c in s if c is not cand] for s in seqs]
        seqs = [s for s in seqs if s]
    return res


def dotted(node) -> Optional[str]:
    """`a.b.c` for Name/Attribute chains, else None."""
    parts = []
    while isinstance(node, ast.Attribute):
        parts.append(node.attr)
        node = node.value
    if isinstance(node, ast.Name):
        parts.append(node.id)
        return ".".join(reversed(parts))
    return None


class Module:
    def __init__(self, path: str, source: str):
        self.path = path  # relative to repo root, e.g. pandera/config.py
        self.source = source
        self.tree = ast.parse(source, filename=path)
        if os.environ.get("PVA_NO_NORMALIZE") != "1":
            from .normalize import normalize_tree
            self.normalized = normalize_tree(self.tree)
        name = path[:-3].replace("/", ".")
        if name.endswith(".__init__"):
            name = name[: -len(".__init__")]
            self.is_pkg = True
        else:
            self.is_pkg = False
        self.name = name
        self.imports: Dict[str, str] = {}
        self.star_imports: List[str] = []
        self.functions: Dict[str, FuncInfo] = {}
        self.classes: Dict[str, ClassInfo] = {}
        self.assigns: Dict[str, ast.expr] = {}
        self.all_assigns: Dict[str, List[ast.expr]] = {}
        self.all_functions: List[FuncInfo] = []
        for n in ast.walk(self.tree):
            for c in ast.iter_child_nodes(n):
                c._parent = n  # type: ignore[attr-defined]

    def pkg(self) -> str:
        return self.name if self.is_pkg else self.name.rsplit(".", 1)[0]

    def segment(self, node) -> str:
        return ast.get_source_segment(self.source, node) or ""


def _abs_import(mod: Module, node: ast.ImportFrom) -> str:
    if node.level == 0:
        return node.module or ""
    base = mod.pkg().split(".")
    if node.level > 1:
        base = base[: -(node.level - 1)]
    if node.module:
        base.append(node.module)
    return ".".join(base)


def _collect_imports(mod: Module, stmts, into: Dict[str, str]):
    for n in stmts:
        if isinstance(n, ast.Import):
            for a in n.names:
                if a.asname:
                    into[a.asname] = a.name
                else:
                    into[a.name.split(".")[0]] = a.name.split(".")[0]
        elif isinstance(n, ast.ImportFrom):
            base = _abs_import(mod, n)
            for a in n.names:
                if a.name == "*":
                    mod.star_imports.append(base)
                    continue
                into[a.asname or a.name] = f"{base}.{a.name}"


def _body_stmts(stmts) -> Iterator[ast.stmt]:
    """Statements of a body, descending through if/try/with (not defs)."""
    for s in stmts:
        yield s
        if isinstance(s, ast.If):
            yield from _body_stmts(s.body)
            yield from _body_stmts(s.orelse)
        elif isinstance(s, ast.Try):
            yield from _body_stmts(s.body)
            for h in s.handlers:
                yield from _body_stmts(h.body)
            yield from _body_stmts(s.orelse)
            yield from _body_stmts(s.finalbody)
        elif isinstance(s, (ast.With, ast.For, ast.While)):
            yield from _body_stmts(s.body)
            yield from _body_stmts(getattr(s, "orelse", []))


class Index:
    @classmethod
    def from_sources(cls, sources: Dict[str, str]) -> "Index":
        """An index over the given sources only (used by detector self-tests)."""
        self = cls.__new__(cls)
        self.root = "<memory>"
        self.modules, self.by_path, self.classes_by_name, self.funcs, self.methods_by_name = {}, {}, {}, {}, {}
        for p, src in sorted(sources.items()):
            m = Module(p, src)
            self.modules[m.name] = m
            self.by_path[p] = m
        for m in self.modules.values():
            self._index_module(m)
        self._link_classes()
        return self

    def __init__(self, root: str = REPO, overlay: Optional[Dict[str, str]] = None,
                 include_pyspark: bool = True):
        self.root = root
        self.modules: Dict[str, Module] = {}
        self.by_path: Dict[str, Module] = {}
        self.classes_by_name: Dict[str, List[ClassInfo]] = {}
        self.funcs: Dict[str, FuncInfo] = {}
        self.methods_by_name: Dict[str, List[FuncInfo]] = {}
        overlay = overlay or {}
        pkgdir = os.path.join(root, PKG)
        paths = []
        for d, _dirs, files in os.walk(pkgdir):
            for f in files:
                if f.endswith(".py"):
                    paths.append(os.path.relpath(os.path.join(d, f), root))
        for p in overlay:
            if p not in paths:
                paths.append(p)
        for p in sorted(paths):
            if p in overlay:
                src = overlay[p]
            else:
                with open(os.path.join(root, p), encoding="utf-8") as fh:
                    src = fh.read()
            try:
                m = Module(p, src)
            except SyntaxError as e:
                raise AnalysisError(f"cannot parse {p}: {e}")
            self.modules[m.name] = m
            self.by_path[p] = m
        for m in self.modules.values():
            self._index_module(m)
        self._link_classes()

    # ------------------------------------------------------------------
    def _index_module(self, m: Module):
        top = list(_body_stmts(m.tree.body))
        _collect_imports(m, top, m.imports)
        for s in top:
            if isinstance(s, (ast.FunctionDef, ast.AsyncFunctionDef)):
                if any((dotted(d) or "").split(".")[-1] == "overload" for d in s.decorator_list):
                    continue  # typing stubs, no behaviour
                f = FuncInfo(m, s)
                m.functions.setdefault(s.name, f)
                self._index_func(f)
            elif isinstance(s, ast.ClassDef):
                c = ClassInfo(m, s)
                m.classes[s.name] = c
                self.classes_by_name.setdefault(s.name, []).append(c)
                self._index_class(c)
            elif isinstance(s, ast.Assign):
                for t in s.targets:
                    if isinstance(t, ast.Name):
                        m.assigns[t.id] = s.value
                        m.all_assigns.setdefault(t.id, []).append(s.value)
            elif isinstance(s, ast.AnnAssign) and isinstance(s.target, ast.Name) and s.value is not None:
                m.assigns[s.target.id] = s.value
                m.all_assigns.setdefault(s.target.id, []).append(s.value)

    def _index_class(self, c: ClassInfo):
        for s in _body_stmts(c.node.body):
            if isinstance(s, (ast.FunctionDef, ast.AsyncFunctionDef)):
                f = FuncInfo(c.module, s, cls=c)
                c.methods.setdefault(s.name, []).append(f)
                self._index_func(f)
                self.methods_by_name.setdefault(s.name, []).append(f)
            elif isinstance(s, ast.Assign):
                for t in s.targets:
                    if isinstance(t, ast.Name):
                        c.assigns[t.id] = s.value
            elif isinstance(s, ast.AnnAssign) and isinstance(s.target, ast.Name):
                c.ann[s.target.id] = s.annotation
                if s.value is not None:
                    c.assigns[s.target.id] = s.value

    def _index_func(self, f: FuncInfo):
        key = f.qual
        n = 2
        while key in self.funcs:  # property getter/setter pairs, redefinitions
            key = f"{f.qual}#{n}"
            n += 1
        f.qual = key
        self.funcs[key] = f
        f.module.all_functions.append(f)
        body = list(_function_stmts(f.node))
        _collect_imports(f.module, body, f.local_imports)
        for s in body:
            if isinstance(s, (ast.FunctionDef, ast.AsyncFunctionDef)):
                g = FuncInfo(f.module, s, cls=None, parent=f)
                f.nested[s.name] = g
                self._index_func(g)

    def _link_classes(self):
        for lst in list(self.classes_by_name.values()):
            for c in lst:
                m = c.module
                for b in c.node.bases:
                    if isinstance(b, ast.Subscript):  # Generic[...] / X[T]
                        b = b.value
                    r = self.resolve_expr(m, b)
                    if r and r[0] == "class":
                        c.bases.append(r[1])
                        r[1].subclasses.append(c)
                    else:
                        c.ext_bases.append(dotted(b) or "?")

    # ------------------------------------------------------------------
    def resolve_fq(self, fq: str, _depth=0):
        """Resolve a dotted fully-qualified name to an index object."""
        if _depth > 12:
            return None
        if fq in self.modules:
            return ("module", self.modules[fq])
        if "." not in fq:
            return ("external", fq)
        head, last = fq.rsplit(".", 1)
        if head in self.modules:
            m = self.modules[head]
            if last in m.classes:
                return ("class", m.classes[last])
            if last in m.functions:
                return ("func", m.functions[last])
            if last in m.imports:
                return self.resolve_fq(m.imports[last], _depth + 1)
            if last in m.assigns:
                return ("global", (m, last))
            for star in m.star_imports:
                r = self.resolve_fq(f"{star}.{last}", _depth + 1)
                if r is not None and r[0] != "external":
                    return r
            return None
        r = self.resolve_fq(head, _depth + 1)
        if r and r[0] == "class":
            c = r[1]
            f = c.lookup(last)
            if f is not None:
                return ("func", f)
            return ("classattr", (c, last))
        if r and r[0] == "external":
            return ("external", fq)
        if not fq.startswith(PKG + ".") and fq != PKG:
            return ("external", fq)
        return None

    def resolve_name(self, m: Module, name: str, func: Optional[FuncInfo] = None):
        f = func
        while f is not None:
            if name in f.nested:
                return ("func", f.nested[name])
            if name in f.local_imports:
                return self.resolve_fq(f.local_imports[name])
            f = f.parent
        if name in m.classes:
            return ("class", m.classes[name])
        if name in m.functions:
            return ("func", m.functions[name])
        if name in m.imports:
            return self.resolve_fq(m.imports[name])
        if name in m.assigns:
            return ("global", (m, name))
        return None

    def resolve_expr(self, m: Module, node, func: Optional[FuncInfo] = None):
        """Resolve Name / dotted Attribute expression statically."""
        if isinstance(node, ast.Name):
            return self.resolve_name(m, node.id, func)
        if isinstance(node, ast.Attribute):
            base = self.resolve_expr(m, node.value, func)
            if base is None:
                return None
            kind, obj = base
            if kind == "module":
                return self.resolve_fq(f"{obj.name}.{node.attr}")
            if kind == "class":
                f = obj.lookup(node.attr)
                if f is not None:
                    return ("func", f)
                return ("classattr", (obj, node.attr))
            if kind == "external":
                return ("external", f"{obj}.{node.attr}")
        return None

    # convenience ------------------------------------------------------
    def func(self, qual: str) -> FuncInfo:
        f = self.funcs.get(qual)
        if f is None:
            raise AnalysisError(f"anchor function not found: {qual}")
        return f

    def cls(self, qual: str) -> ClassInfo:
        path, name = qual.split("::")
        m = self.by_path.get(path)
        if m is None or name not in m.classes:
            raise AnalysisError(f"anchor class not found: {qual}")
        return m.classes[name]

    def module(self, path: str) -> Module:
        m = self.by_path.get(path)
        if m is None:
            raise AnalysisError(f"anchor module not found: {path}")
        return m

    def all_funcs(self, prefix_excl: Tuple[str, ...] = ()) -> List[FuncInfo]:
        return [f for q, f in self.funcs.items() if not any(x in f.module.path for x in prefix_excl)]


def _function_stmts(node) -> Iterator[ast.stmt]:
    """All statements in a function body, descending through compound
    statements but not into nested defs / classes / lambdas."""
    for s in node.body:
        yield from _walk_stmt(s)


def _walk_stmt(s) -> Iterator[ast.stmt]:
    yield s
    if isinstance(s, (ast.FunctionDef, ast.AsyncFunctionDef, ast.ClassDef)):
        return
    for fld in ("body", "orelse", "finalbody"):
        for c in getattr(s, fld, []) or []:
            if isinstance(c, ast.stmt):
                yield from _walk_stmt(c)
    for h in getattr(s, "handlers", []) or []:
        for c in h.body:
            yield from _walk_stmt(c)
    if isinstance(s, ast.Match):
        for case in s.cases:
            for c in case.body:
                yield from _walk_stmt(c)


def function_stmts(f: FuncInfo) -> List[ast.stmt]:
    return list(_function_stmts(f.node))


def walk_no_nested(node) -> Iterator[ast.AST]:
    """ast.walk that does not descend into nested function/class definitions
    (lambdas and comprehensions are entered)."""
    todo = [node]
    first = True
    while todo:
        n = todo.pop()
        if not first and isinstance(n, (ast.FunctionDef, ast.AsyncFunctionDef, ast.ClassDef)):
            continue
        first = False
        yield n
        todo.extend(ast.iter_child_nodes(n))


def parent(node):
    return getattr(node, "_parent", None)


def norm(node) -> str:
    """Normalised text of a node (position independent)."""
    try:
        return ast.unparse(node)
    except Exception:  # pragma: no cover
        return ast.dump(node)
